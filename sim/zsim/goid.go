package zsim

import (
	"runtime"
	"unsafe"
)

func getg() unsafe.Pointer

// goidOff is the offset of the goid field inside the runtime's g structure,
// found at start-up by comparing candidate words with the id that
// runtime.Stack prints, on several goroutines. 0 = not found: fall back to
// parsing runtime.Stack (slow but always right).
var goidOff uintptr

func init() {
	type sample struct {
		g  unsafe.Pointer
		id uint64
	}
	var ss []sample
	ch := make(chan sample)
	for i := 0; i < 4; i++ {
		go func() { ch <- sample{getg(), goidSlow()} }()
	}
	for i := 0; i < 4; i++ {
		ss = append(ss, <-ch)
	}
	ss = append(ss, sample{getg(), goidSlow()})
	for off := uintptr(0); off < 512; off += 8 {
		ok := true
		for _, s := range ss {
			if s.g == nil || *(*uint64)(unsafe.Add(s.g, off)) != s.id {
				ok = false
				break
			}
		}
		if ok {
			goidOff = off
			return
		}
	}
}

// goid returns the id of the calling goroutine. It is used for identity only
// (which task is this?), never for ordering.
//
//go:norace
func goid() uint64 {
	if goidOff != 0 {
		return *(*uint64)(unsafe.Add(getg(), goidOff))
	}
	return goidSlow()
}

//go:norace
func goidSlow() uint64 {
	var buf [40]byte
	n := runtime.Stack(buf[:], false)
	// "goroutine 123 [running]:"
	var id uint64
	for i := len("goroutine "); i < n; i++ {
		c := buf[i]
		if c < '0' || c > '9' {
			break
		}
		id = id*10 + uint64(c-'0')
	}
	return id
}

// GoidFast reports whether the fast path is in use (for the evidence).
func GoidFast() bool { return goidOff != 0 }
