package zsim

import (
	"time"
	"unsafe"
)

// SimClock implements zapcore.Clock (Now, NewTicker) on simulated time. Time
// moves only when the harness or an external event advances it.
type SimClock struct {
	R        *Run
	Epoch    time.Time
	now      int64 // ns since Epoch
	Tickers  []*SimTicker
	NowCalls int
}

type SimTicker struct {
	C        chan time.Time
	T        *time.Ticker
	D        time.Duration
	Owner    unsafe.Pointer // the object (e.g. *BufferedWriteSyncer) whose goroutine consumes the ticks
	OwnerLen uintptr
	Sent     int
}

//go:norace
func NewSimClock(r *Run, epoch time.Time) *SimClock { return &SimClock{R: r, Epoch: epoch} }

//go:norace
func (c *SimClock) Now() time.Time {
	Yield(KClock, unsafe.Pointer(c))
	c.NowCalls++
	return c.Epoch.Add(time.Duration(c.now))
}

// Peek reads the time without a yield point (harness use).
//
//go:norace
func (c *SimClock) Peek() time.Time { return c.Epoch.Add(time.Duration(c.now)) }

//go:norace
func (c *SimClock) Advance(d time.Duration) {
	c.now += int64(d)
	if c.R != nil && d > 0 {
		c.R.SimNanos += int64(d)
	}
}

//go:norace
func (c *SimClock) NewTicker(d time.Duration) *time.Ticker {
	Yield(KClock, unsafe.Pointer(c)) // a call-out to user code: the caller may be pre-empted in it
	ch := make(chan time.Time, 1)
	tk := &SimTicker{C: ch, D: d, T: &time.Ticker{C: ch}}
	c.Tickers = append(c.Tickers, tk)
	return tk.T
}

// For returns a view of the clock whose tickers are attributed to owner.
//
//go:norace
func (c *SimClock) For(owner unsafe.Pointer, size uintptr) *OwnedClock {
	return &OwnedClock{c, owner, size}
}

type OwnedClock struct {
	*SimClock
	owner unsafe.Pointer
	size  uintptr
}

//go:norace
func (o *OwnedClock) NewTicker(d time.Duration) *time.Ticker {
	t := o.SimClock.NewTicker(d)
	tk := o.SimClock.Tickers[len(o.SimClock.Tickers)-1]
	tk.Owner, tk.OwnerLen = o.owner, o.size
	return t
}

// CanTick: Go's select picks pseudo-randomly (and unseedably) among ready
// cases, so a tick is delivered only when the channel is empty and the
// consuming goroutine is idle in its select (not parked inside the simulator).
//
//go:norace
func (c *SimClock) CanTick(tk *SimTicker) bool {
	if len(tk.C) != 0 {
		return false
	}
	if c.R != nil && c.R.Sleepers.Load() > 0 {
		return false // see Run.sleepIn
	}
	if tk.Owner != nil && c.R.BGParkedIn(tk.Owner, tk.OwnerLen) {
		return false
	}
	return true
}

// TickAny delivers a tick on the first ticker that can take one; false if none can.
//
//go:norace
func (c *SimClock) TickAny(fire bool) bool {
	for _, tk := range c.Tickers {
		if c.CanTick(tk) {
			if fire {
				c.Tick(tk)
			}
			return true
		}
	}
	return false
}

// Tick advances time by the ticker's period and delivers one tick.
//
//go:norace
func (c *SimClock) Tick(tk *SimTicker) {
	c.Advance(tk.D)
	tk.Sent++
	tk.C <- c.Peek()
}
