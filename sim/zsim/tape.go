package zsim

// One integer decides everything: a Tape is three streams of bounded choices
// (generation, scheduling, faults), each drawn from a splitmix64 generator
// seeded from the run seed in search mode, or read back from a recorded list
// in replay mode (missing entries read as 0, the simplest choice).

type Stream struct {
	Rec    []uint32 // choices actually used by this run (always recorded)
	src    []uint32 // replay source
	replay bool
	state  uint64
	pos    int
}

func splitmix(x *uint64) uint64 {
	*x += 0x9E3779B97F4A7C15
	z := *x
	z = (z ^ (z >> 30)) * 0xBF58476D1CE4E5B9
	z = (z ^ (z >> 27)) * 0x94D049BB133111EB
	return z ^ (z >> 31)
}

// Mix derives a sub-seed.
func Mix(a, b uint64) uint64 {
	x := a ^ (b * 0x9E3779B97F4A7C15) ^ 0xD1B54A32D192ED03
	return splitmix(&x)
}

// Draw returns a value in [0,n). n<=1 draws nothing and returns 0.
//
//go:norace
func (s *Stream) Draw(n int) int {
	if n <= 1 {
		return 0
	}
	var v uint32
	if s.replay {
		if s.pos < len(s.src) {
			v = s.src[s.pos] % uint32(n)
		}
	} else {
		v = uint32(splitmix(&s.state) % uint64(n))
	}
	s.pos++
	s.Rec = append(s.Rec, v)
	return int(v)
}

// Bool draws true with probability 1/den (0 = false, the simple choice).
func (s *Stream) Chance(den int) bool { return s.Draw(den) == 1 }

// Pick draws an index with the given weights (index 0 is the simple choice).
func (s *Stream) Weighted(w ...int) int {
	tot := 0
	for _, x := range w {
		tot += x
	}
	v := s.Draw(tot)
	for i, x := range w {
		if v < x {
			return i
		}
		v -= x
	}
	return 0
}

type Tape struct {
	Seed  uint64
	Gen   Stream
	Sched Stream
	Fault Stream
}

func NewTape(seed uint64) *Tape {
	t := &Tape{Seed: seed}
	t.Gen.state = Mix(seed, 1)
	t.Sched.state = Mix(seed, 2)
	t.Fault.state = Mix(seed, 3)
	return t
}

// TapeData is the serialisable form.
type TapeData struct {
	Gen   []uint32 `json:"gen"`
	Sched []uint32 `json:"sched"`
	Fault []uint32 `json:"fault"`
}

func ReplayTape(d TapeData) *Tape {
	t := &Tape{}
	t.Gen = Stream{src: d.Gen, replay: true}
	t.Sched = Stream{src: d.Sched, replay: true}
	t.Fault = Stream{src: d.Fault, replay: true}
	return t
}

// Data returns the choices this run consumed, without trailing zeros (a
// missing entry reads as 0, so they carry no information).
func (t *Tape) Data() TapeData {
	return TapeData{Gen: trimZeros(t.Gen.Rec), Sched: trimZeros(t.Sched.Rec), Fault: trimZeros(t.Fault.Rec)}
}

func trimZeros(x []uint32) []uint32 {
	n := len(x)
	for n > 0 && x[n-1] == 0 {
		n--
	}
	return append([]uint32{}, x[:n]...)
}
