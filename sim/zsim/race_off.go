//go:build !race

package zsim

import "unsafe"

const RaceBuild = false

func raceDisable() {}
func raceEnable()  {}

func RaceReleaseMerge(p unsafe.Pointer) {}
func RaceAcquire(p unsafe.Pointer)      {}
