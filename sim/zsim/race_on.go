//go:build race

package zsim

import (
	"runtime"
	"unsafe"
)

// RaceBuild reports whether the binary was built with -race.
const RaceBuild = true

func raceDisable() { runtime.RaceDisable() }
func raceEnable()  { runtime.RaceEnable() }

// RaceReleaseMerge / RaceAcquire give shims a way to add exactly the
// happens-before edges the real primitive would add (per object).
func RaceReleaseMerge(p unsafe.Pointer) { runtime.RaceReleaseMerge(p) }
func RaceAcquire(p unsafe.Pointer)      { runtime.RaceAcquire(p) }
