package zsim

import (
	"bytes"
	"errors"
	"fmt"
	"time"
	"unsafe"
)

// Outcome scripts the answer of one sink call.
type Outcome struct {
	Short int   // bytes NOT taken from the end of p (0 = everything); -1 = take nothing
	Lie   int   // reported count = taken - Lie (a sink that under-reports)
	Err   error // returned error
}

// SinkCall records one Write/Sync/Close call on a SimSink.
type SinkCall struct {
	Kind       byte // 'W', 'S', 'C'
	Task       string
	Off, Len   int   // bytes of Data this call appended (Write)
	Begin, End int64 // global event numbers
	N          int   // count reported (Write)
	Err        error
}

// SimSink is the simulated device beneath a WriteSyncer stack. It is not
// atomic on its own: a Write copies its payload in 1..Frag fragments with a
// yield point between fragments, exactly like a file or a pipe shared by
// threads.
type SimSink struct {
	R    *Run
	Name string
	Frag int // max fragments per write (>=1)

	WritePlan    []Outcome // outcome of the i-th Write (beyond the list: success)
	SyncPlan     []error
	CloseErr     error
	MustProgress bool // a write that reports no error takes at least one byte (beneath bufio, which would spin)
	FailFrom     int  // from this Write call index on every write fails ("disk full"); 0 = never
	FailErr      error
	// Delay: every Write and Sync takes this long (time of the bubble's clock:
	// the caller sleeps inside the device, nothing else is different)
	Delay time.Duration

	Data      []byte
	Calls     []SinkCall
	SyncedLen int // prefix of Data that is on stable storage
	Writes    int
	Syncs     int
	Closes    int
	inFlight  int
	cur       []byte // payload of the write in flight
	curOff    int
	curTake   int
	Dead      bool // after a simulated kill nothing reaches the device
	rng       uint64

	// Faults actually fired, by kind.
	Fired map[string]int
	// OnCall, if set, is called at the end of every call (in the calling goroutine).
	OnCall func(s *SimSink, c *SinkCall)
}

func NewSimSink(r *Run, name string, frag int, seed uint64) *SimSink {
	if frag < 1 {
		frag = 1
	}
	return &SimSink{R: r, Name: name, Frag: frag, rng: seed | 1, Fired: map[string]int{}}
}

func (s *SimSink) rnd(n int) int {
	s.rng ^= s.rng << 13
	s.rng ^= s.rng >> 7
	s.rng ^= s.rng << 17
	return int(s.rng % uint64(n))
}

func (s *SimSink) taskName() string {
	if s.R == nil {
		return "?"
	}
	if t := s.R.Self(); t != nil {
		if t.Name == "" {
			return "bg"
		}
		return t.Name
	}
	return "root"
}

var ErrDiskFull = errors.New("zsim: no space left on device")

func (s *SimSink) Write(p []byte) (int, error) {
	Yield(KSink, unsafe.Pointer(s))
	if s.Dead {
		return len(p), nil
	}
	idx := s.Writes
	s.Writes++
	call := SinkCall{Kind: 'W', Task: s.taskName(), Off: len(s.Data), Begin: s.R.Step()}
	s.inFlight++
	if s.inFlight > 1 {
		s.R.Fail("sink saw overlapping calls", fmt.Sprintf("sink %s: Write by %s began while another call was in progress", s.Name, call.Task))
	}
	if s.Delay > 0 {
		s.R.sleepIn(s.Delay)
		s.Fired["slow-call"]++
	}
	snap := append([]byte(nil), p...)
	var out Outcome
	if idx < len(s.WritePlan) {
		out = s.WritePlan[idx]
	}
	if s.FailFrom > 0 && idx+1 >= s.FailFrom {
		out = Outcome{Short: -1, Err: s.FailErr}
		if out.Err == nil {
			out.Err = ErrDiskFull
		}
	}
	take := len(p)
	if out.Short < 0 {
		take = 0
	} else if out.Short > 0 {
		take -= out.Short
		if take < 0 {
			take = 0
		}
	}
	if s.MustProgress && out.Err == nil && take == 0 && len(p) > 0 {
		take = 1 // a sink that reports no error makes progress (bufio would spin otherwise)
	}
	s.cur, s.curOff, s.curTake = p, len(s.Data), take
	frags := 1
	if s.Frag > 1 && take > 1 {
		frags = 1 + s.rnd(s.Frag)
	}
	done := 0
	for f := 0; f < frags; f++ {
		end := take * (f + 1) / frags
		s.Data = append(s.Data, p[done:end]...)
		done = end
		if f+1 < frags {
			Yield(KSink, unsafe.Pointer(s))
			if s.Dead {
				break
			}
		}
	}
	if !bytes.Equal(p, snap) {
		s.R.Fail("buffer changed while its sink write was in flight", fmt.Sprintf("sink %s: payload %q became %q during Write", s.Name, clip(snap), clip(p)))
	}
	s.inFlight--
	s.cur = nil
	if s.Dead {
		// killed in mid-write: the caller never learns anything
		return len(p), nil
	}
	call.Len = done
	call.End = s.R.Step()
	call.N = done - out.Lie
	if call.N < 0 {
		call.N = 0
	}
	call.Err = out.Err
	if out.Err != nil {
		s.Fired["write-error"]++
	}
	if out.Short != 0 {
		s.Fired["short-write"]++
	}
	if out.Lie != 0 {
		s.Fired["lying-count"]++
	}
	s.Calls = append(s.Calls, call)
	if s.OnCall != nil {
		s.OnCall(s, &s.Calls[len(s.Calls)-1])
	}
	return call.N, out.Err
}

// Committed returns the device content without the bytes of a Write call that
// is still in progress (a caller sitting between two fragments of its write).
func (s *SimSink) Committed() []byte {
	if s.cur != nil && s.curOff <= len(s.Data) {
		return s.Data[:s.curOff]
	}
	return s.Data
}

func (s *SimSink) Sync() error {
	Yield(KSink, unsafe.Pointer(s))
	if s.Dead {
		return nil
	}
	idx := s.Syncs
	s.Syncs++
	call := SinkCall{Kind: 'S', Task: s.taskName(), Off: len(s.Data), Begin: s.R.Step()}
	s.inFlight++
	if s.inFlight > 1 {
		s.R.Fail("sink saw overlapping calls", fmt.Sprintf("sink %s: Sync by %s began while another call was in progress", s.Name, call.Task))
	}
	if s.Delay > 0 {
		s.R.sleepIn(s.Delay)
		s.Fired["slow-call"]++
	}
	var err error
	if idx < len(s.SyncPlan) {
		err = s.SyncPlan[idx]
	}
	if err == nil {
		s.SyncedLen = len(s.Data)
	} else {
		s.Fired["sync-error"]++
	}
	s.inFlight--
	call.End = s.R.Step()
	call.Err = err
	s.Calls = append(s.Calls, call)
	if s.OnCall != nil {
		s.OnCall(s, &s.Calls[len(s.Calls)-1])
	}
	return err
}

func (s *SimSink) Close() error {
	s.Closes++
	s.Calls = append(s.Calls, SinkCall{Kind: 'C', Task: s.taskName(), Off: len(s.Data), Begin: s.R.Step(), End: s.R.Step(), Err: s.CloseErr})
	if s.CloseErr != nil {
		s.Fired["close-error"]++
	}
	return s.CloseErr
}

// Kill simulates abrupt process termination: nothing more reaches the device.
// A write that is in flight either completed or did not happen (the device is
// atomic with respect to the death of the process, not to other threads).
func (s *SimSink) Kill(complete bool) {
	if s.cur != nil {
		s.Data = s.Data[:s.curOff]
		if complete {
			s.Data = append(s.Data, s.cur[:s.curTake]...)
			s.Fired["kill-write-completed"]++
		} else {
			s.Fired["kill-write-lost"]++
		}
	}
	s.Dead = true
	s.inFlight = 0 // the call that was in flight died with the process
	s.cur = nil
}

func clip(b []byte) string {
	if len(b) > 120 {
		return string(b[:120]) + "…"
	}
	return string(b)
}
