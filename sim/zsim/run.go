// Package zsim is the deterministic simulator: one Run is one execution of a
// generated multi-task program inside a testing/synctest bubble, in which the
// bubble's root goroutine is the scheduler and decides, from the choice tape,
// which parked task proceeds at every synchronisation operation.
//
// The package imports nothing from zap (zap's redirected sync/atomic imports
// reach it through verif/simsync and verif/simatomic).
package zsim

import (
	"fmt"
	"runtime"
	"runtime/debug"
	"sort"
	"strings"
	"sync"
	"sync/atomic"
	"testing/synctest"
	"time"
	"unsafe"
)

// Kind of yield point / notification.
type Kind uint8

const (
	KStart Kind = iota
	KLock
	KRLock
	KTryLock
	KTryRLock
	KOnce
	KAtomic
	KPoolGet
	KPoolPut
	KSink
	KClock
	KCall
	KOp
	// notifications (do not park)
	KUnlock
	KRUnlock
	KOnceDone
	KDone
)

var kindNames = [...]string{"start", "lock", "rlock", "trylock", "tryrlock", "once", "atomic", "poolget", "poolput", "sink", "clock", "call", "op", "unlock", "runlock", "oncedone", "done"}

func (k Kind) String() string { return kindNames[k] }

type tstate uint8

const (
	tsRunning tstate = iota
	tsParked
	tsBlocked // blocked outside the simulator's yield points (real channel op, timer)
	tsDone
)

var stateNames = [...]string{"running", "parked", "blocked-external", "done"}

type msg struct {
	t    *Task
	k    Kind
	obj  unsafe.Pointer
	park bool
}

// Task is a goroutine under the scheduler's control.
type Task struct {
	Name   string
	Idx    int
	BG     bool // lazily registered goroutine started by the code under test
	g      uint64
	resume chan struct{}
	state  tstate
	pend   msg
	grant  bool  // result of the last trylock
	arrive int64 // order in which pending requests reached the scheduler
	prio   int
	first  unsafe.Pointer // object of the first yield (identifies bg goroutines)
	Steps  int
}

type lockEnt struct {
	obj     unsafe.Pointer
	owner   *Task
	readers int
}

// Event is an external event the scheduler may fire instead of resuming a task.
type Event struct {
	Name  string
	Avail func() bool
	Fire  func()
	Fired int
}

type traceEnt struct {
	step int64
	task int // -1 event, -2 note
	kind Kind
	obj  int
	note string
}

// Violation is what a run reports.
type Violation struct {
	Sig    string `json:"sig"`    // stable signature (no addresses, seeds, counts)
	Detail string `json:"detail"` // human readable, with expected/actual
	Trace  string `json:"trace"`
}

const (
	PolUniform = iota
	PolSticky
	PolPCT
)

type Policy struct {
	Kind    int
	P       int   // sticky: preempt with probability 1/P
	Changes []int // pct: steps at which the running task is demoted
}

func (p Policy) String() string {
	switch p.Kind {
	case PolUniform:
		return "uniform"
	case PolSticky:
		return fmt.Sprintf("sticky(1/%d)", p.P)
	}
	return fmt.Sprintf("pct(%v)", p.Changes)
}

// DrawPolicy draws a scheduling policy (swarm member) from the generation stream.
func DrawPolicy(g *Stream) Policy {
	switch g.Weighted(3, 4, 2) {
	case 0:
		return Policy{Kind: PolUniform}
	case 1:
		return Policy{Kind: PolSticky, P: []int{2, 8, 32}[g.Draw(3)]}
	}
	d := 1 + g.Draw(3)
	p := Policy{Kind: PolPCT}
	for i := 0; i < d; i++ {
		p.Changes = append(p.Changes, 1+g.Draw(120))
	}
	sort.Ints(p.Changes)
	return p
}

const maxSlots = 64

type Run struct {
	Tape     *Tape
	Policy   Policy
	MaxSteps int64

	in chan msg
	// Sleepers: callers asleep inside a slow simulated device (see sleepIn)
	Sleepers atomic.Int32
	tasks    []*Task
	slots    [maxSlots]*Task
	nslots   int
	gmu      sync.Mutex
	rootG    uint64
	live     atomic.Int32

	aborted  bool
	finished bool
	halt     bool // stop the run without a violation (simulated kill)
	arrivals int64
	step     int64
	locks    []lockEnt
	events   []*Event
	cur      *Task
	trace    []traceEnt
	objs     []unsafe.Pointer
	labels   []string
	fp       uint64
	viol     *Violation
	nbg      int
	pctNext  int

	// statistics
	Preempt    int
	LockWaits  int // times a lock request was found not enabled
	Abandoned  int
	EventFires int
	Probes     map[string]int
	SimNanos   int64  // simulated time covered (maintained by SimClock)
	OnStep     func() // invariant hook evaluated by the scheduler after every quiescence
}

var cur atomic.Pointer[Run]

// NewRun must be called on the bubble's root goroutine.
func NewRun(t *Tape) *Run {
	r := &Run{Tape: t, MaxSteps: 20000, in: make(chan msg, 4096), rootG: goid(), Probes: map[string]int{}}
	newest.Store(r)
	r.fp = 14695981039346656037
	return r
}

// Install makes r the run seen by the shims.
func (r *Run) Install()   { cur.Store(r) }
func (r *Run) Uninstall() { cur.CompareAndSwap(r, nil); newest.CompareAndSwap(r, nil) }

// newest is the run created last (by NewRun, on its root goroutine), whether
// or not the scheduler has been started yet: set-up code of a workload runs
// before Install.
var newest atomic.Pointer[Run]

// Active returns the installed run if the calling goroutine is under its
// scheduler's control (not the root, run not finished or aborted), else nil.
//
//go:norace
func Active() *Run {
	r := cur.Load()
	if r == nil || r.finished || r.aborted {
		return nil
	}
	if goid() == r.rootG {
		return nil
	}
	return r
}

// Current returns the installed run regardless of goroutine.
func Current() *Run { return cur.Load() }

// OnRoot reports whether the caller is the root goroutine of the installed run.
//
//go:norace
func OnRoot() bool {
	r := newest.Load()
	return r != nil && goid() == r.rootG
}

// RootLockStuck is called by the mutex shims when the root goroutine (set-up,
// clean-up and final checks of a workload, where no task runs any more) needs
// a mutex that stays locked after every other goroutine had time to run: a
// lock that was left locked for good. The run is failed as a deadlock and the
// root goroutine is unwound by a panic that ExecOne recovers.
func RootLockStuck(what string) {
	r := newest.Load()
	if r != nil {
		r.Fail("deadlock", "the workload's root goroutine waits for "+what+" that no goroutine will ever release: it was left locked (by a call that returned or was abandoned without unlocking)")
	}
	panic("zsim: " + what + " was left locked")
}

// Step is the global event sequence number (advanced by the scheduler only).
//
//go:norace
func (r *Run) Step() int64 { return r.step }

//go:norace
func (r *Run) addSlot(t *Task) {
	r.gmu.Lock()
	if r.nslots < maxSlots {
		r.slots[r.nslots] = t
		r.nslots++
	}
	r.gmu.Unlock()
}

//go:norace
func (r *Run) self() *Task {
	g := goid()
	n := r.nslots
	for i := 0; i < n; i++ {
		if t := r.slots[i]; t != nil && t.g == g {
			return t
		}
	}
	t := &Task{g: g, BG: true, Idx: -1, resume: make(chan struct{})}
	r.addSlot(t)
	return t
}

// sleepIn: the caller sleeps for d of the bubble's clock inside a simulated
// device. While anybody sleeps no clock event is offered: the goroutine a tick
// is meant for may be the sleeper (a flush loop inside a slow device), the tick
// would wait in its channel, and a stop request arriving meanwhile would leave
// the choice between the two to Go's select, which no seed decides.
//
//go:norace
func (r *Run) sleepIn(d time.Duration) {
	if Active() != r {
		// set-up and clean-up on the root goroutine, a run that has ended or is
		// being unwound: nobody schedules around a sleeper any more, and one
		// goroutine waiting for a lock the sleeper holds (not a durable wait)
		// would keep the bubble's clock from ever reaching the wake-up time
		return
	}
	r.Sleepers.Add(1)
	time.Sleep(d)
	r.Sleepers.Add(-1)
}

// Self returns the calling task (nil on the root goroutine).
//
//go:norace
func (r *Run) Self() *Task {
	if goid() == r.rootG {
		return nil
	}
	return r.self()
}

//go:norace
func (r *Run) park(t *Task, k Kind, obj unsafe.Pointer) {
	raceDisable()
	r.in <- msg{t, k, obj, true}
	<-t.resume
	raceEnable()
	if r.aborted {
		runtime.Goexit()
	}
}

//go:norace
func (r *Run) notify(t *Task, k Kind, obj unsafe.Pointer) {
	raceDisable()
	r.in <- msg{t, k, obj, false}
	raceEnable()
}

// Yield parks the calling task at a yield point until the scheduler resumes it.
//
//go:norace
func (r *Run) Yield(k Kind, obj unsafe.Pointer) {
	r.park(r.self(), k, obj)
}

// Yield is the package-level form used by seams: no-op outside a run.
//
//go:norace
func Yield(k Kind, obj unsafe.Pointer) {
	if r := Active(); r != nil {
		r.park(r.self(), k, obj)
	}
}

// Acquire parks until the model grants obj (exclusive or shared).
//
//go:norace
func (r *Run) Acquire(obj unsafe.Pointer, shared bool) {
	k := KLock
	if shared {
		k = KRLock
	}
	r.park(r.self(), k, obj)
}

// TryAcquire is a yield point that reports whether the model granted obj.
//
//go:norace
func (r *Run) TryAcquire(obj unsafe.Pointer, shared bool) bool {
	k := KTryLock
	if shared {
		k = KTryRLock
	}
	t := r.self()
	r.park(t, k, obj)
	return t.grant
}

//go:norace
func (r *Run) Release(obj unsafe.Pointer, shared bool) {
	k := KUnlock
	if shared {
		k = KRUnlock
	}
	r.notify(r.self(), k, obj)
}

//go:norace
func (r *Run) OnceEnter(obj unsafe.Pointer) { r.park(r.self(), KOnce, obj) }

//go:norace
func (r *Run) OnceLeave(obj unsafe.Pointer) { r.notify(r.self(), KOnceDone, obj) }

// Go starts a task. Root goroutine only.
func (r *Run) Go(name string, fn func()) *Task {
	t := &Task{Name: name, Idx: len(r.tasks), resume: make(chan struct{})}
	r.tasks = append(r.tasks, t)
	r.live.Add(1)
	go r.taskMain(t, fn)
	return t
}

func (r *Run) taskMain(t *Task, fn func()) {
	t.g = goid()
	r.addSlot(t)
	defer r.taskExit(t)
	r.park(t, KStart, nil)
	fn()
}

func (r *Run) taskExit(t *Task) {
	if p := recover(); p != nil {
		st := string(debug.Stack())
		r.Fail("panic escaped task", fmt.Sprintf("task %s panicked: %v\n%s", t.Name, p, trimStack(st)))
	}
	if !r.isAborted() {
		r.notify(t, KDone, nil)
	}
	r.live.Add(-1)
}

//go:norace
func (r *Run) isAborted() bool { return r.aborted }

// Unwinding reports whether the installed run is being torn down: its tasks
// are being unwound with Goexit from wherever they were parked.
func Unwinding() bool {
	r := cur.Load()
	return r != nil && r.aborted && !r.finished
}

func trimStack(s string) string {
	lines := strings.Split(s, "\n")
	if len(lines) > 40 {
		lines = lines[:40]
	}
	return strings.Join(lines, "\n")
}

// Fail records the first violation of the run. It may be called from any
// goroutine; the scheduler aborts the run at its next step.
//
//go:norace
func (r *Run) Fail(sig, detail string) {
	r.gmu.Lock()
	if r.viol == nil {
		r.viol = &Violation{Sig: sig, Detail: detail}
	}
	r.gmu.Unlock()
}

//go:norace
func (r *Run) Failed() bool { return r.viol != nil }

func (r *Run) Violation() *Violation { return r.viol }

// Probe counts a "this rare condition was hit" event. Root goroutine or
// non-race binaries only.
//
//go:norace
func (r *Run) Probe(name string) { r.Probes[name]++ }

// Note adds a line to the trace (non-race binaries / root only).
//
//go:norace
func (r *Run) Note(s string) {
	r.trace = append(r.trace, traceEnt{step: r.step, task: -2, note: s})
}

func (r *Run) AddEvent(e *Event) { r.events = append(r.events, e) }

// Label names an object for traces.
func (r *Run) Label(obj unsafe.Pointer, name string) {
	r.objID(obj)
	for i, o := range r.objs {
		if o == obj {
			r.labels[i] = name
		}
	}
}

//go:norace
func (r *Run) objID(obj unsafe.Pointer) int {
	if obj == nil {
		return -1
	}
	for i, o := range r.objs {
		if o == obj {
			return i
		}
	}
	r.objs = append(r.objs, obj)
	r.labels = append(r.labels, "")
	return len(r.objs) - 1
}

func (r *Run) objName(id int) string {
	if id < 0 {
		return ""
	}
	if r.labels[id] != "" {
		return r.labels[id]
	}
	return fmt.Sprintf("o%d", id)
}

func (r *Run) lockOf(obj unsafe.Pointer) *lockEnt {
	for i := range r.locks {
		if r.locks[i].obj == obj {
			return &r.locks[i]
		}
	}
	r.locks = append(r.locks, lockEnt{obj: obj})
	return &r.locks[len(r.locks)-1]
}

// HeldByOther reports whether the model says obj is held (root goroutine).
func (r *Run) Held(obj unsafe.Pointer) bool {
	l := r.lockOf(obj)
	return l.owner != nil || l.readers > 0
}

func (r *Run) enabled(t *Task) bool {
	if t.state != tsParked {
		return false
	}
	switch t.pend.k {
	case KLock, KOnce:
		l := r.lockOf(t.pend.obj)
		return l.owner == nil && l.readers == 0
	case KRLock:
		if r.lockOf(t.pend.obj).owner != nil {
			return false
		}
		// like sync.RWMutex, a writer that asked first blocks later readers
		// (this is what turns recursive read locking into a deadlock)
		return !r.writerWaitingBefore(t)
	}
	return true
}

func (r *Run) writerWaitingBefore(t *Task) bool {
	for _, o := range r.tasks {
		if o != t && o.state == tsParked && o.pend.k == KLock && o.pend.obj == t.pend.obj && o.arrive < t.arrive {
			return true
		}
	}
	return false
}

// quiesce waits until every goroutine of the bubble is durably blocked, then
// drains and applies the messages sent since the last step.
//
//go:norace
func (r *Run) quiesce() int {
	var buf [64]msg
	ms := buf[:0]
	raceDisable()
	synctest.Wait()
drain:
	for {
		select {
		case m := <-r.in:
			ms = append(ms, m)
		default:
			break drain
		}
	}
	raceEnable()
	// lazily registered goroutines get their identity here, in an order that
	// depends only on the schedule (first message position is per-step and a
	// step wakes at most one unknown goroutine in every workload we build).
	for _, m := range ms {
		if m.t.Idx < 0 {
			m.t.Idx = len(r.tasks)
			r.nbg++
			m.t.Name = fmt.Sprintf("bg%d", r.nbg)
			m.t.first = m.obj
			r.tasks = append(r.tasks, m.t)
		}
	}
	// apply per task in task order; per-task FIFO order is preserved.
	sort.SliceStable(ms, func(i, j int) bool { return ms[i].t.Idx < ms[j].t.Idx })
	for _, m := range ms {
		t := m.t
		switch m.k {
		case KUnlock:
			l := r.lockOf(m.obj)
			// Go allows a mutex to be unlocked by another goroutine than the one
			// that locked it (hand-off); only unlocking a free mutex is an error
			// (the real mutex beneath would end the process)
			if l.owner == nil {
				r.Fail("unlock of a mutex that is not locked", fmt.Sprintf("task %s unlocked %s which nobody holds", t.Name, r.objName(r.objID(m.obj))))
			}
			l.owner = nil
		case KRUnlock:
			l := r.lockOf(m.obj)
			if l.readers <= 0 {
				r.Fail("runlock of a mutex not read-locked", fmt.Sprintf("task %s", t.Name))
			} else {
				l.readers--
			}
		case KOnceDone:
			r.lockOf(m.obj).owner = nil
		case KDone:
			t.state = tsDone
		default:
			t.state = tsParked
			t.pend = m
			r.arrivals++
			t.arrive = r.arrivals
		}
	}
	for _, t := range r.tasks {
		if t.state == tsRunning {
			t.state = tsBlocked
		}
	}
	return len(ms)
}

func ownerName(t *Task) string {
	if t == nil {
		return "nobody"
	}
	return t.Name
}

//go:norace
func (r *Run) resume(t *Task) {
	m := t.pend
	switch m.k {
	case KLock, KOnce:
		r.lockOf(m.obj).owner = t
	case KRLock:
		r.lockOf(m.obj).readers++
	case KTryLock:
		l := r.lockOf(m.obj)
		t.grant = l.owner == nil && l.readers == 0
		if t.grant {
			l.owner = t
		}
	case KTryRLock:
		l := r.lockOf(m.obj)
		t.grant = l.owner == nil && !r.writerWaitingBefore(t)
		if t.grant {
			l.readers++
		}
	}
	if r.cur != nil && r.cur != t && r.cur.state == tsParked {
		r.Preempt++
	}
	r.cur = t
	t.state = tsRunning
	t.Steps++
	r.step++
	oid := r.objID(m.obj)
	r.trace = append(r.trace, traceEnt{step: r.step, task: t.Idx, kind: m.k, obj: oid})
	r.fp = (r.fp ^ (uint64(t.Idx+1)<<8 | uint64(m.k))) * 1099511628211
	raceDisable()
	t.resume <- struct{}{}
	raceEnable()
}

func (r *Run) fire(e *Event) {
	r.step++
	e.Fired++
	r.EventFires++
	r.trace = append(r.trace, traceEnt{step: r.step, task: -1, note: e.Name})
	r.fp = (r.fp ^ 0xEE) * 1099511628211
	e.Fire()
}

// Loop runs the scheduler until every task is finished and no background
// goroutine is parked, or a violation is recorded. Root goroutine only.
func (r *Run) Loop() {
	var en []*Task
	var ev []*Event
	idleRounds := 0
	for {
		r.quiesce()
		if r.OnStep != nil && r.viol == nil {
			r.OnStep()
		}
		if r.viol != nil || r.halt {
			r.abort()
			return
		}
		if r.step > r.MaxSteps {
			r.Fail("livelock: step cap exceeded", fmt.Sprintf("more than %d scheduler steps\n%s", r.MaxSteps, r.describe()))
			r.abort()
			return
		}
		en = en[:0]
		ev = ev[:0]
		unfinished, parked := 0, 0
		for _, t := range r.tasks {
			if t.state != tsDone && !t.BG {
				unfinished++
			}
			if t.state == tsParked {
				parked++
				if r.enabled(t) {
					en = append(en, t)
				} else {
					r.LockWaits++
				}
			}
		}
		if unfinished == 0 && parked == 0 {
			if r.Sleepers.Load() > 0 && idleRounds < 8 {
				// a background goroutine is asleep inside a slow device: the run
				// is over when it has come out (and parked again, or gone idle)
				idleRounds++
				raceDisable()
				time.Sleep(24 * time.Hour)
				raceEnable()
				continue
			}
			return
		}
		// external events are offered only while named tasks are unfinished
		if unfinished > 0 {
			for _, e := range r.events {
				if e.Avail() {
					ev = append(ev, e)
				}
			}
		}
		if len(en) == 0 && len(ev) == 0 {
			// nothing the simulator can move: let fake time pass in case the
			// code under test sleeps or waits for a real (bubble) timer
			if idleRounds < 2 {
				idleRounds++
				raceDisable()
				time.Sleep(24 * time.Hour)
				raceEnable()
				continue
			}
			r.Fail("deadlock", "no task can proceed and no event is available\n"+r.describe())
			r.abort()
			return
		}
		idleRounds = 0
		r.choose(en, ev)
	}
}

func (r *Run) choose(en []*Task, ev []*Event) {
	s := &r.Tape.Sched
	curEnabled := false
	for _, t := range en {
		if t == r.cur {
			curEnabled = true
		}
	}
	pickOther := func() {
		// candidates: enabled tasks other than cur (by index), then events
		n := len(en) + len(ev)
		if curEnabled {
			n--
		}
		if n == 0 {
			r.resume(r.cur)
			return
		}
		v := s.Draw(n)
		for _, t := range en {
			if curEnabled && t == r.cur {
				continue
			}
			if v == 0 {
				r.resume(t)
				return
			}
			v--
		}
		r.fire(ev[v])
	}
	switch r.Policy.Kind {
	case PolSticky:
		if curEnabled {
			if s.Draw(r.Policy.P) != 1 {
				r.resume(r.cur)
				return
			}
		}
		pickOther()
	case PolPCT:
		if len(ev) > 0 && (len(en) == 0 || s.Draw(6) == 1) {
			r.fire(ev[s.Draw(len(ev))])
			return
		}
		for r.pctNext < len(r.Policy.Changes) && int64(r.Policy.Changes[r.pctNext]) <= r.step {
			if r.cur != nil {
				r.cur.prio = -r.pctNext - 1
			}
			r.pctNext++
		}
		var best *Task
		for _, t := range en {
			if t.prio == 0 {
				t.prio = 1 + s.Draw(1000)
			}
			if best == nil || t.prio > best.prio {
				best = t
			}
		}
		r.resume(best)
	default:
		// uniform; value 0 = continue the current task
		n := len(en) + len(ev)
		v := s.Draw(n)
		if curEnabled {
			if v == 0 {
				r.resume(r.cur)
				return
			}
			v--
		}
		for _, t := range en {
			if curEnabled && t == r.cur {
				continue
			}
			if v == 0 {
				r.resume(t)
				return
			}
			v--
		}
		r.fire(ev[v])
	}
}

// abort ends the run early: parked tasks exit through Goexit (their deferred
// unlocks run), shims become pass-through, goroutines stuck in real channel
// operations are abandoned.
//
//go:norace
func (r *Run) abort() {
	r.aborted = true
	for round := 0; round < 50; round++ {
		n := 0
		for _, t := range r.tasks {
			if t.state == tsParked {
				t.state = tsRunning
				n++
				raceDisable()
				t.resume <- struct{}{}
				raceEnable()
			}
		}
		raceDisable()
		synctest.Wait()
		raceEnable()
		// tasks that parked between the abort decision and now
		more := 0
	drain:
		for {
			select {
			case m := <-r.in:
				if m.park {
					m.t.state = tsParked
					if m.t.Idx < 0 {
						m.t.Idx = len(r.tasks)
						r.tasks = append(r.tasks, m.t)
					}
					more++
				}
			default:
				break drain
			}
		}
		if n == 0 && more == 0 {
			break
		}
	}
	r.Abandoned = int(r.live.Load())
}

// Halt ends the run at the next scheduler step without a violation: every
// task is unwound as by abort (used for simulated process death).
func (r *Run) Halt() { r.halt = true }

// Halted reports whether the run was ended by Halt.
func (r *Run) Halted() bool { return r.halt }

// Finish makes all shims pass-through so that the root can clean up (Stop
// buffered syncers etc.) without being scheduled.
//
//go:norace
func (r *Run) Finish() { r.finished = true }

func (r *Run) Fingerprint() uint64 { return r.fp }
func (r *Run) Steps() int64        { return r.step }
func (r *Run) Tasks() []*Task      { return r.tasks }

// BGTasks returns lazily registered goroutines whose first yield object lies
// in [lo, lo+size).
func (r *Run) BGParkedIn(lo unsafe.Pointer, size uintptr) bool {
	for _, t := range r.tasks {
		if t.BG && t.state == tsParked {
			p := uintptr(t.first)
			if p >= uintptr(lo) && p < uintptr(lo)+size {
				return true
			}
		}
	}
	return false
}

// Live returns the number of named task goroutines that have not exited.
func (r *Run) Live() int { return int(r.live.Load()) }

func (r *Run) describe() string {
	var b strings.Builder
	for _, t := range r.tasks {
		fmt.Fprintf(&b, "  task %-6s %s", t.Name, stateNames[t.state])
		if t.state == tsParked {
			fmt.Fprintf(&b, " at %s(%s)", t.pend.k, r.objName(r.objID(t.pend.obj)))
			if !r.enabled(t) {
				l := r.lockOf(t.pend.obj)
				fmt.Fprintf(&b, " — held by %s readers=%d", ownerName(l.owner), l.readers)
			}
		}
		b.WriteByte('\n')
	}
	return b.String()
}

// TraceString renders the last n trace entries.
func (r *Run) TraceString(n int) string {
	var b strings.Builder
	tr := r.trace
	if len(tr) > n {
		fmt.Fprintf(&b, "  … %d earlier steps omitted\n", len(tr)-n)
		tr = tr[len(tr)-n:]
	}
	for _, e := range tr {
		switch e.task {
		case -1:
			fmt.Fprintf(&b, "  #%d event %s\n", e.step, e.note)
		case -2:
			fmt.Fprintf(&b, "  #%d     · %s\n", e.step, e.note)
		default:
			fmt.Fprintf(&b, "  #%d %s %s %s\n", e.step, r.tasks[e.task].Name, e.kind, r.objName(e.obj))
		}
	}
	return b.String()
}

// Gate is a barrier for harness use: tasks that Wait park (as on a held
// mutex, so no busy waiting under any scheduling policy) until the root
// goroutine opens it.
type Gate struct{ _ byte }

var gateKeeper = &Task{Name: "gate"}

func (r *Run) NewGate() *Gate {
	g := &Gate{}
	r.lockOf(unsafe.Pointer(g)).owner = gateKeeper
	return g
}

// Open lets every waiting and future Wait pass. Root goroutine only.
func (r *Run) OpenGate(g *Gate) { r.lockOf(unsafe.Pointer(g)).owner = nil }

// Wait parks the calling task until the gate is open.
//
//go:norace
func (g *Gate) Wait() {
	if r := Active(); r != nil {
		r.Acquire(unsafe.Pointer(g), false)
		r.Release(unsafe.Pointer(g), false)
	}
}
