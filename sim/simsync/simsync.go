// Package simsync stands in for package sync in zap's non-test sources when
// they are built through the generated overlay. Mutex, RWMutex, Once and Pool
// are modelled by the simulator and then really executed; everything else is
// re-exported unchanged so that code using other parts of sync still builds.
//
// Outside a simulated run (package initialisers, the scheduler goroutine,
// after a run has finished) every type behaves exactly like the real one.
package simsync

import (
	"runtime"
	"sync"
	"testing/synctest"
	"time"
	"unsafe"

	"verif/zsim"
)

type (
	WaitGroup = sync.WaitGroup
	Cond      = sync.Cond
	Map       = sync.Map
	Locker    = sync.Locker
)

func NewCond(l Locker) *Cond { return sync.NewCond(l) }

// OnceFunc, OnceValue and OnceValues are rebuilt on the modelled Once (the
// real ones would park a latecomer on a mutex of the standard library while
// the first caller sits at a yield point inside f, which the simulator cannot
// see). Semantics as in package sync: f runs once; if it panicked, every call
// panics with the same value.
func OnceFunc(f func()) func() {
	var (
		once  Once
		valid bool
		p     any
	)
	g := func() {
		defer func() {
			p = recover()
			if !valid {
				panic(p)
			}
		}()
		f()
		f = nil
		valid = true
	}
	return func() {
		once.Do(g)
		if !valid {
			panic(p)
		}
	}
}

func OnceValue[T any](f func() T) func() T {
	var result T
	do := OnceFunc(func() { result = f() })
	return func() T {
		do()
		return result
	}
}

func OnceValues[T1, T2 any](f func() (T1, T2)) func() (T1, T2) {
	var (
		r1 T1
		r2 T2
	)
	do := OnceFunc(func() { r1, r2 = f() })
	return func() (T1, T2) {
		do()
		return r1, r2
	}
}

type Mutex struct {
	mu sync.Mutex
}

func (m *Mutex) Lock() {
	if r := zsim.Active(); r != nil {
		r.Acquire(unsafe.Pointer(m), false)
	} else if zsim.Unwinding() {
		// The run is being torn down (a simulated process kill, a violation):
		// tasks parked at yield points are unwound where they stand, also those
		// that hold a mutex their code releases without defer. A goroutine still
		// running that meets such a mutex would wait for ever on a primitive the
		// bubble cannot see through; it is unwound as well.
		if !m.mu.TryLock() {
			runtime.Goexit()
		}
		return
	} else if zsim.OnRoot() {
		// The root goroutine runs while every task is parked or gone; real
		// goroutines of the code under test (flush loops) may hold the mutex for
		// a moment. If it does not come free while they run to their next
		// blocking point - and, for a holder that sleeps inside a slow device,
		// while the bubble's clock moves on -, it never will.
		for i := 0; i < 100; i++ {
			if m.mu.TryLock() {
				return
			}
			synctest.Wait()
			if i >= 10 {
				time.Sleep(time.Second)
			}
		}
		zsim.RootLockStuck("a sync.Mutex")
	}
	m.mu.Lock()
}

func (m *Mutex) Unlock() {
	if zsim.Unwinding() {
		// A task unwound while it was parked inside Lock never took the real
		// mutex; a deferred Unlock registered before that Lock (sync.Cond.Wait
		// re-locking under an earlier "defer mu.Unlock()") must not unlock what
		// is not locked - the runtime would end the process.
		if m.mu.TryLock() {
			m.mu.Unlock()
			return
		}
	}
	m.mu.Unlock()
	if r := zsim.Active(); r != nil {
		r.Release(unsafe.Pointer(m), false)
	}
}

func (m *Mutex) TryLock() bool {
	if r := zsim.Active(); r != nil {
		if !r.TryAcquire(unsafe.Pointer(m), false) {
			return false
		}
		m.mu.Lock()
		return true
	}
	return m.mu.TryLock()
}

type RWMutex struct {
	mu sync.RWMutex
}

func (m *RWMutex) Lock() {
	if r := zsim.Active(); r != nil {
		r.Acquire(unsafe.Pointer(m), false)
	} else if zsim.Unwinding() { // see Mutex.Lock
		if !m.mu.TryLock() {
			runtime.Goexit()
		}
		return
	}
	m.mu.Lock()
}

func (m *RWMutex) Unlock() {
	if zsim.Unwinding() {
		if m.mu.TryLock() { // see Mutex.Unlock
			m.mu.Unlock()
			return
		}
	}
	m.mu.Unlock()
	if r := zsim.Active(); r != nil {
		r.Release(unsafe.Pointer(m), false)
	}
}

func (m *RWMutex) RLock() {
	if r := zsim.Active(); r != nil {
		r.Acquire(unsafe.Pointer(m), true)
	} else if zsim.Unwinding() { // see Mutex.Lock
		if !m.mu.TryRLock() {
			runtime.Goexit()
		}
		return
	}
	m.mu.RLock()
}

func (m *RWMutex) RUnlock() {
	m.mu.RUnlock()
	if r := zsim.Active(); r != nil {
		r.Release(unsafe.Pointer(m), true)
	}
}

func (m *RWMutex) TryLock() bool {
	if r := zsim.Active(); r != nil {
		if !r.TryAcquire(unsafe.Pointer(m), false) {
			return false
		}
		m.mu.Lock()
		return true
	}
	return m.mu.TryLock()
}

func (m *RWMutex) TryRLock() bool {
	if r := zsim.Active(); r != nil {
		if !r.TryAcquire(unsafe.Pointer(m), true) {
			return false
		}
		m.mu.RLock()
		return true
	}
	return m.mu.TryRLock()
}

func (m *RWMutex) RLocker() Locker { return (*rlocker)(m) }

type rlocker RWMutex

func (r *rlocker) Lock()   { (*RWMutex)(r).RLock() }
func (r *rlocker) Unlock() { (*RWMutex)(r).RUnlock() }

// Once: Do is a yield point that is enabled only while nobody else is inside
// the same Once, like the real one, which blocks latecomers until f returned.
type Once struct {
	once sync.Once
}

func (o *Once) Do(f func()) {
	if r := zsim.Active(); r != nil {
		r.OnceEnter(unsafe.Pointer(o))
		defer r.OnceLeave(unsafe.Pointer(o))
	}
	o.once.Do(f)
}
