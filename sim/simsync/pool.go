package simsync

import (
	"sync"
	"unsafe"

	"verif/zsim"
)

// Pool replaces sync.Pool. The free list is explicit, so the reuse order is a
// per-run policy instead of an accident of the runtime, "a GC emptied the
// pool" is an event, and objects can be poisoned while they are free.
type Pool struct {
	New func() any

	mu   sync.Mutex // guards registration and pass-through use only
	reg  bool
	free []any
	// statistics since the last Reset
	Gets, Hits, Puts, Drops int
}

const (
	PoolLIFO  = iota // maximal reuse (default)
	PoolFresh        // never reuse: the reference behaviour
	PoolFIFO
	PoolRandom
)

// Hooks installed by the harness (process-wide; set before runs start).
var (
	// OnPut is called with the object after it entered the free list
	// (poisoning); OnGet with a recycled object before it is handed out
	// (fingerprint check).
	OnPut func(p *Pool, x any)
	OnGet func(p *Pool, x any)
	// OnDoublePut is called when an object already in the free list is put again.
	OnDoublePut func(p *Pool, x any)
)

var (
	regMu  sync.Mutex
	pools  []*Pool
	policy = PoolLIFO
	rndSt  uint64
	capN   = 0 // 0 = unbounded
)

// SetPolicy selects the reuse policy for subsequent runs and empties all pools.
func SetPolicy(p int, seed uint64, capacity int) {
	regMu.Lock()
	policy, rndSt, capN = p, seed|1, capacity
	for _, pl := range pools {
		pl.reset()
	}
	regMu.Unlock()
}

// DropAll empties every pool ("a GC cycle ran").
func DropAll() {
	regMu.Lock()
	for _, pl := range pools {
		pl.Drops += len(pl.free)
		for i := range pl.free {
			pl.free[i] = nil
		}
		pl.free = pl.free[:0]
	}
	regMu.Unlock()
}

// Stats sums the counters of all pools.
func Stats() (gets, hits, puts, drops int) {
	regMu.Lock()
	for _, pl := range pools {
		gets += pl.Gets
		hits += pl.Hits
		puts += pl.Puts
		drops += pl.Drops
	}
	regMu.Unlock()
	return
}

// FreeObjects calls f for every object currently in a free list.
func FreeObjects(f func(p *Pool, x any)) {
	regMu.Lock()
	for _, pl := range pools {
		for _, x := range pl.free {
			f(pl, x)
		}
	}
	regMu.Unlock()
}

func (p *Pool) reset() {
	for i := range p.free {
		p.free[i] = nil
	}
	p.free = p.free[:0]
	p.Gets, p.Hits, p.Puts, p.Drops = 0, 0, 0, 0
}

//go:norace
func (p *Pool) register() {
	if p.reg {
		return
	}
	regMu.Lock()
	if !p.reg {
		p.reg = true
		pools = append(pools, p)
	}
	regMu.Unlock()
}

//go:norace
func iface(x any) unsafe.Pointer { return (*[2]unsafe.Pointer)(unsafe.Pointer(&x))[1] }

//go:norace
func (p *Pool) take() any {
	p.Gets++
	n := len(p.free)
	if n == 0 || policy == PoolFresh {
		return nil
	}
	i := n - 1
	switch policy {
	case PoolFIFO:
		i = 0
	case PoolRandom:
		rndSt ^= rndSt << 13
		rndSt ^= rndSt >> 7
		rndSt ^= rndSt << 17
		i = int(rndSt % uint64(n))
	}
	x := p.free[i]
	// remove without copy() (copy is race-instrumented by the runtime)
	for j := i; j < n-1; j++ {
		p.free[j] = p.free[j+1]
	}
	p.free[n-1] = nil
	p.free = p.free[:n-1]
	p.Hits++
	return x
}

//go:norace
func (p *Pool) give(x any) (double bool) {
	p.Puts++
	if policy == PoolFresh {
		return false
	}
	px := iface(x)
	for _, y := range p.free {
		if iface(y) == px {
			return true
		}
	}
	if capN > 0 && len(p.free) >= capN {
		p.Drops++
		return false
	}
	p.free = append(p.free, x)
	return false
}

func (p *Pool) Get() any {
	p.register()
	r := zsim.Active()
	if r == nil {
		p.mu.Lock()
	}
	x := p.take()
	if r == nil {
		p.mu.Unlock()
	}
	if x != nil {
		zsim.RaceAcquire(iface(x))
		if OnGet != nil {
			OnGet(p, x)
		}
		return x
	}
	if p.New != nil {
		return p.New()
	}
	return nil
}

func (p *Pool) Put(x any) {
	if x == nil {
		return
	}
	p.register()
	zsim.RaceReleaseMerge(iface(x))
	r := zsim.Active()
	if r == nil {
		p.mu.Lock()
	}
	double := p.give(x)
	if r == nil {
		p.mu.Unlock()
	}
	if double {
		if OnDoublePut != nil {
			OnDoublePut(p, x)
		}
	} else if OnPut != nil {
		OnPut(p, x)
	}
	if r != nil {
		// the only place where another task can observe the recycled object
		// before the caller's next synchronisation operation
		r.Yield(zsim.KPoolPut, unsafe.Pointer(p))
	}
}
