// mkoverlay scans the non-test Go sources of the zap working tree and writes,
// for every file that imports "sync" or "sync/atomic", a copy in which only
// those import specs are redirected to verif/simsync and verif/simatomic,
// plus an overlay.json for `go build -overlay`. /repo itself is never touched.
//
// usage: mkoverlay -repo /repo -out /verif/work/overlay
// exit 2 on anything unexpected (unparsable file, dot/blank import of sync).
package main

import (
	"encoding/json"
	"flag"
	"fmt"
	"go/parser"
	"go/token"
	"os"
	"path/filepath"
	"sort"
	"strconv"
	"strings"
)

func die(f string, a ...any) {
	fmt.Fprintf(os.Stderr, "mkoverlay: "+f+"\n", a...)
	os.Exit(2)
}

func main() {
	repo := flag.String("repo", "/repo", "zap working tree")
	out := flag.String("out", "", "output directory")
	flag.Parse()
	if *out == "" {
		die("-out required")
	}
	os.RemoveAll(*out)
	if err := os.MkdirAll(*out, 0o755); err != nil {
		die("%v", err)
	}
	replace := map[string]string{}
	var redirected []string
	skipDirs := map[string]bool{".git": true, "benchmarks": true, "tools": true, "assets": true}
	err := filepath.Walk(*repo, func(path string, info os.FileInfo, err error) error {
		if err != nil {
			return err
		}
		rel, _ := filepath.Rel(*repo, path)
		if info.IsDir() {
			if skipDirs[info.Name()] || (rel != "." && strings.HasPrefix(info.Name(), ".")) {
				return filepath.SkipDir
			}
			// nested modules other than exp are not part of the build
			if rel != "." && rel != "exp" {
				if _, err := os.Stat(filepath.Join(path, "go.mod")); err == nil {
					return filepath.SkipDir
				}
			}
			return nil
		}
		if !strings.HasSuffix(path, ".go") || strings.HasSuffix(path, "_test.go") {
			return nil
		}
		src, err := os.ReadFile(path)
		if err != nil {
			return err
		}
		fset := token.NewFileSet()
		f, err := parser.ParseFile(fset, path, src, parser.ImportsOnly)
		if err != nil {
			// a tree that does not parse will fail the build anyway; leave it
			return nil
		}
		type edit struct {
			from, to int
			text     string
		}
		var edits []edit
		for _, im := range f.Imports {
			p, _ := strconv.Unquote(im.Path.Value)
			var target, defName string
			switch p {
			case "sync":
				target, defName = "verif/simsync", "sync"
			case "sync/atomic":
				target, defName = "verif/simatomic", "atomic"
			default:
				continue
			}
			name := defName
			start := fset.Position(im.Path.Pos()).Offset
			if im.Name != nil {
				if im.Name.Name == "." || im.Name.Name == "_" {
					die("%s: cannot redirect %s import of %s", rel, im.Name.Name, p)
				}
				name = im.Name.Name
				start = fset.Position(im.Name.Pos()).Offset
			}
			end := fset.Position(im.Path.End()).Offset
			edits = append(edits, edit{start, end, name + " " + strconv.Quote(target)})
		}
		if len(edits) == 0 {
			return nil
		}
		sort.Slice(edits, func(i, j int) bool { return edits[i].from > edits[j].from })
		b := src
		for _, e := range edits {
			b = append(append(append([]byte{}, b[:e.from]...), e.text...), b[e.to:]...)
		}
		dst := filepath.Join(*out, rel)
		if err := os.MkdirAll(filepath.Dir(dst), 0o755); err != nil {
			return err
		}
		if err := os.WriteFile(dst, b, 0o644); err != nil {
			return err
		}
		replace[path] = dst
		redirected = append(redirected, rel)
		return nil
	})
	if err != nil {
		die("%v", err)
	}
	// files ADDED to the build (they do not exist in the repository): exported
	// access to internal test seams that zap's own tests use
	extra := map[string]string{
		"zsim_exit_export.go": exitExport,
	}
	for name, src := range extra {
		dst := filepath.Join(*out, name)
		if err := os.WriteFile(dst, []byte(src), 0o644); err != nil {
			die("%v", err)
		}
		replace[filepath.Join(*repo, name)] = dst
	}
	js, _ := json.MarshalIndent(map[string]any{"Replace": replace}, "", " ")
	if err := os.WriteFile(filepath.Join(*out, "overlay.json"), js, 0o644); err != nil {
		die("%v", err)
	}
	sort.Strings(redirected)
	fmt.Printf("overlay: %d files redirected: %s\n", len(redirected), strings.Join(redirected, " "))
}

const exitExport = `// Added to package zap by the simulation overlay only; not part of the repository.
package zap

import "go.uber.org/zap/internal/exit"

// ZsimStubExit replaces the process exit used by the default Fatal action
// with a recorder (the same stub zap's own tests use) until unstub is called.
func ZsimStubExit() (unstub func(), state func() (exited bool, code int)) {
	s := exit.Stub()
	return s.Unstub, func() (bool, int) { return s.Exited, s.Code }
}
`
