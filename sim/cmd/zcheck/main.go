// zcheck is the driver behind bin/check: it regenerates the overlay from the
// current working tree of the repository, rebuilds the simulation binary,
// runs worker processes over disjoint run indices, merges their results,
// confirms every violation by replaying it in a fresh process, writes the
// evidence file and sets the exit status:
//
//	0  property held on everything explored (known findings are listed)
//	1  a violation not listed in known_findings.json (VIOLATION line printed)
//	2  infrastructure trouble (build failure, worker crash, watchdog)
package main

import (
	"bytes"
	"encoding/binary"
	"encoding/json"
	"fmt"
	"os"
	"os/exec"
	"path/filepath"
	"runtime"
	"sort"
	"strconv"
	"strings"
	"sync"
	"time"
)

type tierCfg struct {
	Runs     int64 // total run indices per base seed
	BudgetS  int   // wall-clock budget for the workers of one base seed
	Bases    int   // number of base seeds
	Race     bool
	Level    string
	MemLimit string
}

type propCfg struct {
	Quick, Thorough tierCfg
	Race            bool
	Level           string
	Assumptions     []string
}

var props = map[string]propCfg{}

func reg(id, level string, race bool, qRuns int64, qBudget int, tRuns int64, tBudget, tBases int, assumptions ...string) {
	props[id] = propCfg{
		Quick:       tierCfg{Runs: qRuns, BudgetS: qBudget, Bases: 1},
		Thorough:    tierCfg{Runs: tRuns, BudgetS: tBudget, Bases: tBases},
		Race:        race,
		Level:       level,
		Assumptions: assumptions,
	}
}

var commonAssumptions = []string{
	"interleavings are explored at synchronisation operations (mutex, rwmutex, once, atomics, pool put, sink calls, clock reads, operation boundaries) only: sufficient for data-race-free code; data-race freedom itself is what C09 checks",
	"sampling, not proof: a clean batch is evidence for the schedules, fault plans and programs that were drawn",
	"go1.26.8 toolchain semantics (testing/synctest) for the simulated build; zap's go.mod language version is unchanged",
}

func init() {
	reg("C12", "exploration", false, 400000, 45, 6000000, 240, 3)
	reg("C09", "exploration", true, 80000, 50, 1500000, 300, 3)
	reg("C11", "exploration", false, 250000, 45, 3000000, 240, 3)
	reg("C13", "fault_enumeration", false, 150000, 45, 2000000, 240, 3)
	reg("C05", "exploration", false, 250000, 45, 3000000, 240, 3)
	reg("C06", "exploration", false, 80000, 45, 1000000, 240, 3)
	reg("C10", "exploration", false, 200000, 45, 3000000, 240, 3)
	reg("C07", "exploration", false, 200000, 45, 3000000, 240, 3)
	reg("C08", "exploration", false, 100000, 45, 2000000, 240, 3)
	reg("C17", "exploration", false, 300000, 45, 6000000, 200, 3)
	reg("C19", "exploration", false, 80000, 45, 1000000, 240, 3)
	reg("C20", "exploration", false, 150000, 45, 2000000, 240, 3)
	reg("C04", "exploration", false, 250000, 45, 4000000, 240, 3)
}

type findings struct {
	Findings []finding `json:"findings"`
}
type finding struct {
	Status    string `json:"status"` // open | fixed
	Property  string `json:"property"`
	Signature string `json:"signature"` // exact violation signature (open findings)
	What      string `json:"what"`
	Commit    string `json:"commit,omitempty"`
}

type replayFile struct {
	Property  string          `json:"property"`
	Tier      string          `json:"tier"`
	BaseSeed  uint64          `json:"base_seed"`
	RunIndex  int64           `json:"run_index"`
	RunSeed   uint64          `json:"run_seed"`
	Tape      json.RawMessage `json:"tape"`
	TapeLen   [3]int          `json:"tape_len_before_after_attempts"`
	Signature string          `json:"signature"`
	Detail    string          `json:"detail"`
	Config    []string        `json:"config_and_program"`
	Trace     string          `json:"trace"`
	Race      bool            `json:"race_binary"`
	SeedOnly  bool            `json:"seed_only,omitempty"`
	Repo      string          `json:"repo_state,omitempty"`
	Original  json.RawMessage `json:"original_tape,omitempty"`
	// see props.ReplayFile
	WorkerFrom   int64   `json:"worker_from"`
	WorkerStride int64   `json:"worker_stride,omitempty"`
	Prefix       []int64 `json:"earlier_runs_of_the_process,omitempty"`
}

type workerOut struct {
	Runs       int64          `json:"runs"`
	Nontrivial int64          `json:"nontrivial_runs"`
	Steps      int64          `json:"steps"`
	Preempt    int64          `json:"preemptions"`
	SimNanos   int64          `json:"sim_nanos"`
	WallS      float64        `json:"wall_s"`
	Faults     map[string]int `json:"faults"`
	Probes     map[string]int `json:"probes"`
	Policies   map[string]int `json:"policies"`
	Known      map[string]int `json:"known"`
	Violations []replayFile   `json:"violations"`
	Samples    []any          `json:"samples"`
	FPFile     string         `json:"fp_file"`
	LastIndex  int64          `json:"last_index"`
	Dirty      bool           `json:"dirty"`
}

var (
	verifDir = "/verif"
	repoDir  = "/repo"
	goBin    = "go1.26.8"
)

func fatal2(f string, a ...any) {
	fmt.Fprintf(os.Stderr, "zcheck: "+f+"\n", a...)
	removeScratch()
	os.Exit(2)
}

func goEnv() []string {
	env := os.Environ()
	env = append(env, "GOFLAGS=-mod=mod", "GOPROXY=off", "GOSUMDB=off", "GOTOOLCHAIN=local", "GOWORK=off")
	return env
}

func run(dir string, env []string, name string, args ...string) (string, error) {
	cmd := exec.Command(name, args...)
	cmd.Dir = dir
	cmd.Env = env
	var out bytes.Buffer
	cmd.Stdout, cmd.Stderr = &out, &out
	err := cmd.Run()
	return out.String(), err
}

func repoState() string {
	head, _ := run(repoDir, os.Environ(), "git", "rev-parse", "--short", "HEAD")
	diff, _ := run(repoDir, os.Environ(), "git", "diff", "HEAD", "--stat")
	st := strings.TrimSpace(head)
	if strings.TrimSpace(diff) != "" {
		lines := strings.Split(strings.TrimSpace(diff), "\n")
		st += " +dirty(" + strings.TrimSpace(lines[len(lines)-1]) + ")"
	}
	return st
}

// build regenerates the overlay and builds the worker binary for this
// invocation into workDir.
func build(workDir string, race bool) string {
	simDir := filepath.Join(verifDir, "sim")
	if v := os.Getenv("VERIF_SIM_DIR"); v != "" {
		// a snapshot of the simulator sources (long batch jobs of bin/seedregress
		// and bin/benigneval, so that edits made meanwhile do not reach them)
		simDir = v
	}
	modfile := filepath.Join(simDir, "go.mod")
	env := goEnv()
	if repoDir != "/repo" {
		// scratch copy: a private go.mod pointing at it
		b, err := os.ReadFile(modfile)
		if err != nil {
			fatal2("%v", err)
		}
		s := strings.ReplaceAll(string(b), "=> /repo/exp", "=> "+repoDir+"/exp")
		s = strings.ReplaceAll(s, "=> /repo\n", "=> "+repoDir+"\n")
		modfile = filepath.Join(workDir, "go.mod")
		os.WriteFile(modfile, []byte(s), 0o644)
		sum, _ := os.ReadFile(filepath.Join(simDir, "go.sum"))
		os.WriteFile(filepath.Join(workDir, "go.sum"), sum, 0o644)
	}
	mk := filepath.Join(workDir, "mkoverlay")
	if out, err := run(simDir, env, goBin, "build", "-o", mk, "./cmd/mkoverlay"); err != nil {
		fatal2("building mkoverlay failed:\n%s", out)
	}
	ov := filepath.Join(workDir, "overlay")
	if out, err := run(simDir, env, mk, "-repo", repoDir, "-out", ov); err != nil {
		fatal2("overlay generation failed:\n%s", out)
	}
	bin := filepath.Join(workDir, "simtest")
	args := []string{"test", "-c", "-modfile=" + modfile, "-overlay", filepath.Join(ov, "overlay.json"), "-o", bin}
	if race {
		args = append(args, "-race")
	}
	args = append(args, "./props")
	if out, err := run(simDir, env, goBin, args...); err != nil {
		fatal2("the simulated build of %s failed (not a verdict on the property):\n%s", repoDir, out)
	}
	return bin
}

// scratchDir is where workloads create their per-run files (C19's targets,
// C06's child-process files): a private directory on the memory file system
// when there is one (an order of magnitude faster than the disk for the
// thousands of short-lived files of a batch), else the run's work directory.
// It is removed together with the work directory when the check ends.
var scratchOnce struct {
	once sync.Once
	dir  string
}

// scratchDir is called by the worker goroutines of runBase concurrently.
func scratchDir(workDir string) string {
	scratchOnce.once.Do(func() {
		dir := workDir
		if d, err := os.MkdirTemp("/dev/shm", "zsim-scratch-"); err == nil {
			if f, err := os.CreateTemp(d, "probe"); err == nil {
				f.Close()
				os.Remove(f.Name())
				dir = d
			} else {
				os.Remove(d)
			}
		}
		scratchOnce.dir = dir
	})
	return scratchOnce.dir
}

func removeScratch() {
	scratchOnce.once.Do(func() {})
	if strings.HasPrefix(scratchOnce.dir, "/dev/shm/") {
		os.RemoveAll(scratchOnce.dir)
	}
}

func loadFindings() []finding {
	b, err := os.ReadFile(filepath.Join(verifDir, "known_findings.json"))
	if err != nil {
		return nil
	}
	var f findings
	if err := json.Unmarshal(b, &f); err != nil {
		fatal2("known_findings.json: %v", err)
	}
	return f.Findings
}

func main() {
	if v := os.Getenv("VERIF_DIR"); v != "" {
		verifDir = v
	}
	if v := os.Getenv("VERIF_REPO"); v != "" {
		repoDir = v
	}
	if len(os.Args) >= 2 && os.Args[1] == "selftest-determinism" {
		code := selftestDeterminism(os.Args[2:])
		removeScratch()
		os.Exit(code)
	}
	if len(os.Args) < 3 {
		fatal2("usage: zcheck <property> quick|thorough | zcheck <property> --replay <file>")
	}
	if os.Args[1] == "selftest-determinism" {
		code := selftestDeterminism(os.Args[2:])
		removeScratch()
		os.Exit(code)
	}
	id := os.Args[1]
	pc, ok := props[id]
	if !ok {
		fatal2("no check for property %q", id)
	}
	workDir := filepath.Join(verifDir, "work", fmt.Sprintf("run-%s-%d", id, os.Getpid()))
	os.MkdirAll(workDir, 0o755)
	defer os.RemoveAll(workDir)
	code := realMain(id, pc, workDir)
	os.RemoveAll(workDir)
	removeScratch()
	os.Exit(code)
}

func realMain(id string, pc propCfg, workDir string) int {
	if os.Args[2] == "--replay" {
		if len(os.Args) < 4 {
			fatal2("--replay needs a file")
		}
		var rf replayFile
		b, err := os.ReadFile(os.Args[3])
		if err != nil {
			fatal2("%v", err)
		}
		json.Unmarshal(b, &rf)
		bin := build(workDir, rf.Race)
		out, match := replayOnce(bin, id, os.Args[3], workDir)
		fmt.Print(out)
		if match {
			fmt.Printf("VIOLATION property=%s replay=%s\n", id, os.Args[3])
			return 1
		}
		fmt.Println("replay did not reproduce the recorded violation on this tree")
		return 0
	}
	tier := os.Args[2]
	var tc tierCfg
	switch tier {
	case "quick":
		tc = pc.Quick
	case "thorough":
		tc = pc.Thorough
	default:
		fatal2("tier must be quick or thorough")
	}
	if v := os.Getenv("VERIF_BUDGET_S"); v != "" {
		tc.BudgetS, _ = strconv.Atoi(v)
	}
	if v := os.Getenv("VERIF_RUNS"); v != "" {
		tc.Runs, _ = strconv.ParseInt(v, 10, 64)
	}
	seed := uint64(1)
	if v := os.Getenv("VERIF_SEED"); v != "" {
		s, err := strconv.ParseUint(v, 10, 64)
		if err != nil {
			si, _ := strconv.ParseInt(v, 10, 64)
			s = uint64(si)
		}
		seed = s
	}
	fmt.Printf("zcheck %s %s VERIF_SEED=%d repo=%s\n", id, tier, seed, repoState())
	start := time.Now()
	bin := build(workDir, pc.Race)
	buildS := time.Since(start).Seconds()
	nw := runtime.NumCPU()
	if v := os.Getenv("VERIF_WORKERS"); v != "" {
		nw, _ = strconv.Atoi(v)
	}
	if nw < 1 {
		nw = 1
	}

	total := &workerOut{Faults: map[string]int{}, Probes: map[string]int{}, Policies: map[string]int{}, Known: map[string]int{}}
	fps := map[uint64]struct{}{}
	var viols []replayFile
	var bases []uint64
	infra := ""
	for b := 0; b < tc.Bases; b++ {
		base := seed + uint64(b)*1000003
		bases = append(bases, base)
		outs, err := runBase(bin, id, tier, base, tc, nw, workDir, pc.Race)
		if err != "" {
			infra = err
		}
		for _, o := range outs {
			total.Runs += o.Runs
			total.Nontrivial += o.Nontrivial
			total.Steps += o.Steps
			total.Preempt += o.Preempt
			total.SimNanos += o.SimNanos
			total.WallS += o.WallS
			for k, v := range o.Faults {
				total.Faults[k] += v
			}
			for k, v := range o.Probes {
				total.Probes[k] += v
			}
			for k, v := range o.Policies {
				total.Policies[k] += v
			}
			for k, v := range o.Known {
				total.Known[k] += v
			}
			if len(total.Samples) < 4 {
				total.Samples = append(total.Samples, o.Samples...)
			}
			viols = append(viols, o.Violations...)
			if o.FPFile != "" {
				if fb, err := os.ReadFile(o.FPFile); err == nil {
					for i := 0; i+8 <= len(fb); i += 8 {
						fps[binary.LittleEndian.Uint64(fb[i:])] = struct{}{}
					}
				}
			}
		}
		if len(viols) > 0 {
			break
		}
	}
	wall := time.Since(start).Seconds()

	// ---- violations: known findings, replay confirmation ----
	kf := loadFindings()
	exit := 0
	seenSig := map[string]bool{}
	knownPrinted := map[string]bool{}
	newViolations := 0
	os.MkdirAll(filepath.Join(verifDir, "replays"), 0o755)
	state := repoState()
	sort.SliceStable(viols, func(i, j int) bool { return viols[i].RunIndex < viols[j].RunIndex })
	for _, v := range viols {
		if seenSig[v.Signature] {
			continue
		}
		seenSig[v.Signature] = true
		if f := matchFinding(kf, id, v.Signature); f != nil {
			if !knownPrinted[f.Signature] {
				knownPrinted[f.Signature] = true
				fmt.Printf("KNOWN-FINDING: property=%s %s\n", id, f.What)
			}
			continue
		}
		v.Repo = state
		path := filepath.Join(verifDir, "replays", fmt.Sprintf("%s-%d.json", id, v.RunSeed))
		if v.Race && v.SeedOnly {
			// race reports end the worker process, so they are minimised here,
			// one fresh process per candidate tape
			v = shrinkRace(bin, id, v, workDir)
		}
		js, _ := json.MarshalIndent(v, "", " ")
		os.WriteFile(path, js, 0o644)
		out, match := replayOnce(bin, id, path, workDir)
		if !match && len(v.Original) > 0 {
			// the minimised tape did not reproduce in a fresh process: fall back to the original
			v.Tape, v.Original = v.Original, nil
			js, _ = json.MarshalIndent(v, "", " ")
			os.WriteFile(path, js, 0o644)
			out, match = replayOnce(bin, id, path, workDir)
		}
		if !match && v.Race && !v.SeedOnly {
			// neither tape reproduces in halting mode: the seed-only form did
			v.SeedOnly, v.Tape, v.Original = true, nil, nil
			js, _ = json.MarshalIndent(v, "", " ")
			os.WriteFile(path, js, 0o644)
			out, match = replayOnce(bin, id, path, workDir)
		}
		if !match && !v.Race && v.WorkerStride > 0 && v.RunIndex > v.WorkerFrom && (v.RunIndex-v.WorkerFrom)/v.WorkerStride <= 20000 {
			// the run alone does not reproduce: replay it after the runs its worker
			// process had executed before it (state of the code under test that
			// outlives a run - a package-level cache, a table filled on demand -
			// is part of the history). The run itself from its seed: a tape
			// minimised inside a process in that state means nothing.
			v.Prefix = nil
			for i := v.WorkerFrom; i < v.RunIndex; i += v.WorkerStride {
				v.Prefix = append(v.Prefix, i)
			}
			v.SeedOnly, v.Tape, v.Original = true, nil, nil
			v.Detail += fmt.Sprintf("\n(does not reproduce from its own tape; reproduces after the %d earlier runs of its worker process: the code under test keeps state across runs)", len(v.Prefix))
			js, _ = json.MarshalIndent(v, "", " ")
			os.WriteFile(path, js, 0o644)
			out, match = replayOnce(bin, id, path, workDir)
		}
		if !match {
			fmt.Printf("zcheck: violation %q (run %d) did NOT reproduce on replay in a fresh process:\n%s\n", v.Signature, v.RunIndex, out)
			infra = "a violation did not replay; treated as infrastructure trouble, not as a verdict"
			continue
		}
		newViolations++
		fmt.Printf("---- violation (replays in a fresh process) ----\nsignature: %s\n%s\ncase: %s\ntape: %d choices (was %d, %d shrink attempts)\n%s\n", v.Signature, v.Detail, strings.Join(v.Config, " | "), v.TapeLen[1], v.TapeLen[0], v.TapeLen[2], v.Trace)
		fmt.Printf("VIOLATION property=%s replay=%s\n", id, path)
		exit = 1
	}
	// known findings the workloads met and stepped over
	for sig, n := range total.Known {
		if f := matchFinding(kf, id, sig); f != nil {
			if !knownPrinted[f.Signature] {
				knownPrinted[f.Signature] = true
				fmt.Printf("KNOWN-FINDING: property=%s %s (met in %d runs)\n", id, f.What, n)
			}
		} else {
			fmt.Printf("zcheck: workload reported an unlisted known-finding signature %q\n", sig)
			infra = "unlisted known-finding signature"
		}
	}

	// ---- evidence ----
	zeroProbes := []string{}
	for k, v := range total.Probes {
		if v == 0 {
			zeroProbes = append(zeroProbes, k)
		}
	}
	runsPerHour := 0.0
	if wall > 0 {
		runsPerHour = float64(total.Runs) / wall * 3600
	}
	if len(total.Samples) == 0 {
		for _, v := range viols {
			total.Samples = append(total.Samples, map[string]any{"run_index": v.RunIndex, "seed": v.RunSeed, "violating_case": v.Config, "signature": v.Signature})
		}
	}
	if total.Samples == nil {
		total.Samples = []any{}
	}
	meta := propMeta(bin, id)
	ev := map[string]any{
		"property_id": id,
		"tier":        tier,
		"seed":        int64(seed),
		"level":       pc.Level,
		"wall_s":      wall,
		"violations":  newViolations,
		"assumptions": append(append([]string{}, commonAssumptions...), pc.Assumptions...),
		"coverage": map[string]any{
			"evaluations":               total.Runs,
			"distinct_nontrivial":       len(fps),
			"rule":                      meta.Rule,
			"samples":                   total.Samples,
			"nontrivial_runs":           total.Nontrivial,
			"scheduler_steps":           total.Steps,
			"preemptions":               total.Preempt,
			"simulated_seconds_covered": float64(total.SimNanos) / 1e9,
			"runs_per_hour":             runsPerHour,
			"base_seeds":                bases,
			"workers":                   nw,
			"faults_fired_by_kind":      total.Faults,
			"probe_counters":            total.Probes,
			"scheduling_policies":       total.Policies,
			"known_findings_met":        total.Known,
			"components_real":           meta.Real,
			"components_stub":           meta.Stub,
			"race_detector":             pc.Race,
			"repo_state":                state,
			"build_s":                   buildS,
			"exhaustive":                false,
		},
	}
	os.MkdirAll(filepath.Join(verifDir, "evidence"), 0o755)
	js, _ := json.MarshalIndent(ev, "", " ")
	evPath := filepath.Join(verifDir, "evidence", id+".json")
	if repoDir != "/repo" {
		// a run against a scratch copy (self-tests, seeded changes) must not
		// replace the evidence of the check on /repo
		os.MkdirAll(filepath.Join(verifDir, "work", "evidence-scratch"), 0o755)
		evPath = filepath.Join(verifDir, "work", "evidence-scratch", id+".json")
	}
	if err := os.WriteFile(evPath, js, 0o644); err != nil {
		fatal2("%v", err)
	}
	fmt.Printf("zcheck %s %s: %d runs (%d non-trivial, %d distinct), %d steps, %.0f simulated s, faults=%v, %.1fs wall, %.0f runs/hour\n",
		id, tier, total.Runs, total.Nontrivial, len(fps), total.Steps, float64(total.SimNanos)/1e9, total.Faults, wall, runsPerHour)
	for k, v := range total.Probes {
		if v == 0 {
			fmt.Printf("zcheck: warning: probe %q never fired\n", k)
		}
	}
	if exit == 1 {
		return 1
	}
	if infra != "" {
		fmt.Fprintf(os.Stderr, "zcheck: %s\n", infra)
		return 2
	}
	if total.Runs == 0 {
		fmt.Fprintln(os.Stderr, "zcheck: no runs executed")
		return 2
	}
	fmt.Printf("OK property=%s held on everything explored\n", id)
	return 0
}

func matchFinding(kf []finding, id, sig string) *finding {
	for i := range kf {
		f := &kf[i]
		if f.Status == "open" && f.Property == id && f.Signature == sig {
			return f
		}
	}
	return nil
}

type meta struct {
	Rule string   `json:"rule"`
	Real []string `json:"real"`
	Stub []string `json:"stub"`
}

func propMeta(bin, id string) meta {
	cmd := exec.Command(bin, "-test.run", "TestMeta")
	cmd.Env = append(os.Environ(), "ZSIM_PROP="+id, "GOMAXPROCS=1")
	out, _ := cmd.Output()
	var m meta
	for _, l := range strings.Split(string(out), "\n") {
		if strings.HasPrefix(l, "META ") {
			json.Unmarshal([]byte(l[5:]), &m)
		}
	}
	return m
}

func replayOnce(bin, id, path, workDir string) (string, bool) {
	cmd := exec.Command(bin, "-test.run", "TestWorker", "-test.timeout", "120s")
	raceLog := filepath.Join(workDir, fmt.Sprintf("racereplay-%d", time.Now().UnixNano()))
	cmd.Env = append(os.Environ(), "ZSIM_PROP="+id, "ZSIM_REPLAY="+path, "GOMAXPROCS=1", "ZSIM_TMP="+scratchDir(workDir), "ZSIM_KNOWN_FILE="+filepath.Join(verifDir, "known_findings.json"), "GORACE=log_path="+raceLog+" halt_on_error=1 exitcode=66")
	var out bytes.Buffer
	cmd.Stdout, cmd.Stderr = &out, &out
	err := cmd.Run()
	s := out.String()
	if ee, ok := err.(*exec.ExitError); ok && ee.ExitCode() == 66 {
		rep := readRaceLog(raceLog, cmd.Process.Pid)
		sig := "data race: " + raceSig(rep)
		var rf replayFile
		if b, e := os.ReadFile(path); e == nil {
			json.Unmarshal(b, &rf)
		}
		s += "REPLAY-RESULT " + sig + "\n" + rep
		if sig == rf.Signature {
			s += "REPLAY-MATCH\n"
			return s, true
		}
		return s, false
	}
	return s, strings.Contains(s, "REPLAY-MATCH")
}

// tapeData mirrors zsim.TapeData.
type tapeData struct {
	Gen   []uint32 `json:"gen"`
	Sched []uint32 `json:"sched"`
	Fault []uint32 `json:"fault"`
}

func (t tapeData) size() int { return len(t.Gen) + len(t.Sched) + len(t.Fault) }

// raceAttempt runs one tape (or, with seedOnly, the tape the run seed
// generates) in a fresh worker process and returns the normalised race
// signature it produced ("" = none), the report, and the tape it consumed.
func raceAttempt(bin, id string, v replayFile, cand *tapeData, workDir string) (string, string, tapeData, string) {
	rf := v
	rf.Original = nil
	if cand != nil {
		rf.SeedOnly = false
		rf.Tape, _ = json.Marshal(cand)
	}
	stamp := time.Now().UnixNano()
	path := filepath.Join(workDir, fmt.Sprintf("racecand-%d.json", stamp))
	tapeOut := filepath.Join(workDir, fmt.Sprintf("racecand-%d.tape", stamp))
	raceLog := filepath.Join(workDir, fmt.Sprintf("racecand-%d.log", stamp))
	js, _ := json.Marshal(rf)
	os.WriteFile(path, js, 0o644)
	defer os.Remove(path)
	defer os.Remove(tapeOut)
	cmd := exec.Command(bin, "-test.run", "TestWorker", "-test.timeout", "60s")
	cmd.Env = append(os.Environ(), "ZSIM_PROP="+id, "ZSIM_REPLAY="+path, "ZSIM_TAPEOUT="+tapeOut, "GOMAXPROCS=1", "ZSIM_TMP="+scratchDir(workDir),
		"ZSIM_KNOWN_FILE="+filepath.Join(verifDir, "known_findings.json"), "GORACE=log_path="+raceLog+" halt_on_error=0 exitcode=0")
	var out bytes.Buffer
	cmd.Stdout, cmd.Stderr = &out, &out
	cmd.Run()
	rep := readRaceLog(raceLog, cmd.Process.Pid)
	os.Remove(fmt.Sprintf("%s.%d", raceLog, cmd.Process.Pid))
	var used tapeData
	if b, err := os.ReadFile(tapeOut); err == nil {
		json.Unmarshal(b, &used)
	}
	sig := ""
	if strings.Contains(rep, "DATA RACE") {
		sig = "data race: " + raceSig(rep)
	}
	return sig, rep, used, out.String()
}

// shrinkRace minimises a race violation by delta debugging over its choice
// tape: truncate the streams, delete blocks, zero and halve entries; a
// candidate is kept only if a fresh process reports the same normalised race.
func shrinkRace(bin, id string, v replayFile, workDir string) replayFile {
	sig0, rep0, full, out0 := raceAttempt(bin, id, v, nil, workDir)
	if sig0 != v.Signature || full.size() == 0 {
		return v // not reproducible without halting: keep the seed-only form
	}
	best := full
	attempts := 0
	deadline := time.Now().Add(45 * time.Second)
	lastRep, lastOut := rep0, out0
	try := func(cand tapeData) bool {
		if attempts >= 150 || time.Now().After(deadline) {
			return false
		}
		attempts++
		sig, rep, used, o := raceAttempt(bin, id, v, &cand, workDir)
		if sig == v.Signature && used.size() <= cand.size()+8 {
			best, lastRep, lastOut = used, rep, o
			return true
		}
		return false
	}
	clone := func(d tapeData) tapeData {
		return tapeData{Gen: append([]uint32(nil), d.Gen...), Sched: append([]uint32(nil), d.Sched...), Fault: append([]uint32(nil), d.Fault...)}
	}
	streams := func(d *tapeData) []*[]uint32 { return []*[]uint32{&d.Gen, &d.Fault, &d.Sched} }
	for pass := 0; pass < 4; pass++ {
		progress := false
		for si := 0; si < 3; si++ {
			for {
				cur := *streams(&best)[si]
				if len(cur) == 0 {
					break
				}
				ok := false
				for _, keep := range []int{0, len(cur) / 2, len(cur) * 3 / 4, len(cur) - 1} {
					if keep >= len(cur) {
						continue
					}
					cand := clone(best)
					*streams(&cand)[si] = (*streams(&cand)[si])[:keep]
					if try(cand) {
						ok, progress = true, true
						break
					}
				}
				if !ok {
					break
				}
			}
			for _, bs := range []int{16, 4, 1} {
				for i := 0; ; {
					cur := *streams(&best)[si]
					if i+bs > len(cur) {
						break
					}
					cand := clone(best)
					s := streams(&cand)[si]
					*s = append((*s)[:i], (*s)[i+bs:]...)
					if try(cand) {
						progress = true
					} else {
						i += bs
					}
				}
			}
			for i := 0; ; i++ {
				cur := *streams(&best)[si]
				if i >= len(cur) {
					break
				}
				if cur[i] == 0 {
					continue
				}
				cand := clone(best)
				(*streams(&cand)[si])[i] = 0
				if try(cand) {
					progress = true
				}
			}
		}
		if !progress || attempts >= 150 || time.Now().After(deadline) {
			break
		}
	}
	v.SeedOnly = false
	v.Original, _ = json.Marshal(full)
	v.Tape, _ = json.Marshal(best)
	v.TapeLen = [3]int{full.size(), best.size(), attempts}
	v.Detail = lastRep
	for _, l := range strings.Split(lastOut, "\n") {
		if strings.HasPrefix(l, "CASEX ") {
			v.Config = append(v.Config, strings.TrimPrefix(l, "CASEX "))
		}
	}
	return v
}

func readRaceLog(prefix string, pid int) string {
	b, err := os.ReadFile(fmt.Sprintf("%s.%d", prefix, pid))
	if err != nil {
		return ""
	}
	s := string(b)
	if len(s) > 8000 {
		s = s[:8000]
	}
	return s
}

// raceSig normalises a race report to the zap function at the top of each of
// the two conflicting stacks.
func raceSig(rep string) string {
	var tops []string
	lines := strings.Split(rep, "\n")
	for i := 0; i < len(lines); i++ {
		l := lines[i]
		if strings.HasPrefix(l, "Write at ") || strings.HasPrefix(l, "Read at ") || strings.HasPrefix(l, "Previous write at ") || strings.HasPrefix(l, "Previous read at ") {
			kind := strings.Fields(l)[0]
			if kind == "Previous" {
				kind = "previous " + strings.Fields(l)[1]
			}
			fn := ""
			for j := i + 1; j < len(lines) && strings.TrimSpace(lines[j]) != ""; j++ {
				f := strings.TrimSpace(lines[j])
				if strings.HasPrefix(f, "go.uber.org/zap") {
					fn = f
					break
				}
			}
			if fn == "" && i+1 < len(lines) {
				fn = strings.TrimSpace(lines[i+1])
			}
			if k := strings.Index(fn, "("); k > 0 && !strings.HasPrefix(fn[k:], "(*") {
				fn = fn[:k]
			} else if k := strings.LastIndex(fn, "("); k > 0 {
				fn = fn[:k]
			}
			tops = append(tops, strings.ToLower(kind)+" in "+fn)
		}
		if len(tops) == 2 {
			break
		}
	}
	return strings.Join(tops, " / ")
}

// runBase runs nw workers over run indices [0, tc.Runs) of one base seed
// (worker k takes indices k, k+nw, ...), restarting a worker that stopped at
// a violation, within the wall-clock budget.
func runBase(bin, id, tier string, base uint64, tc tierCfg, nw int, workDir string, race bool) ([]*workerOut, string) {
	var mu sync.Mutex
	var outs []*workerOut
	infra := ""
	deadline := time.Now().Add(time.Duration(tc.BudgetS) * time.Second)
	var wg sync.WaitGroup
	for k := 0; k < nw; k++ {
		wg.Add(1)
		go func(k int) {
			defer wg.Done()
			from := int64(k)
			violations := 0
			for attempt := 0; attempt < 8; attempt++ {
				remain := time.Until(deadline)
				if remain <= 0 || from >= tc.Runs {
					return
				}
				outPath := filepath.Join(workDir, fmt.Sprintf("w-%d-%d-%d.json", base, k, attempt))
				raceLog := filepath.Join(workDir, fmt.Sprintf("race-%d-%d-%d", base, k, attempt))
				cmd := exec.Command(bin, "-test.run", "TestWorker", "-test.timeout", "0")
				cmd.Env = append(os.Environ(),
					"ZSIM_PROP="+id, "ZSIM_TIER="+tier,
					"ZSIM_BASE="+strconv.FormatUint(base, 10),
					"ZSIM_FROM="+strconv.FormatInt(from, 10), "ZSIM_TO="+strconv.FormatInt(tc.Runs, 10),
					"ZSIM_STRIDE="+strconv.Itoa(nw),
					"ZSIM_BUDGET_MS="+strconv.FormatInt(remain.Milliseconds(), 10),
					"ZSIM_OUT="+outPath, "GOMAXPROCS=1",
					"ZSIM_KNOWN_FILE="+filepath.Join(verifDir, "known_findings.json"),
					"ZSIM_TMP="+scratchDir(workDir),
				)
				progPath := outPath + ".progress"
				cmd.Env = append(cmd.Env, "ZSIM_PROGRESS="+progPath)
				if race {
					cmd.Env = append(cmd.Env, "GORACE=log_path="+raceLog+" halt_on_error=1 exitcode=66")
				}
				var stderr bytes.Buffer
				cmd.Stdout, cmd.Stderr = &stderr, &stderr
				if err := cmd.Start(); err != nil {
					mu.Lock()
					infra = "cannot start worker: " + err.Error()
					mu.Unlock()
					return
				}
				done := make(chan error, 1)
				go func() { done <- cmd.Wait() }()
				var werr error
				select {
				case werr = <-done:
				case <-time.After(remain + 90*time.Second):
					cmd.Process.Kill()
					<-done
					mu.Lock()
					where := ""
					if pb, _ := os.ReadFile(progPath); len(pb) >= 16 {
						where = fmt.Sprintf("; it was in run index %d of base seed %d (run seed %d)", int64(binary.LittleEndian.Uint64(pb)), base, binary.LittleEndian.Uint64(pb[8:]))
					}
					infra = fmt.Sprintf("watchdog: worker %d made no progress within its budget + 90s and was killed (a hang in the simulated code or the harness; not a verdict)%s", k, where)
					mu.Unlock()
					return
				}
				if ee, ok := werr.(*exec.ExitError); ok && race && ee.ExitCode() == 66 {
					// the race detector halted the worker inside the announced run
					pb, _ := os.ReadFile(progPath)
					if len(pb) < 16 {
						mu.Lock()
						infra = "race detector halted a worker before any run was announced:\n" + readRaceLog(raceLog, cmd.Process.Pid)
						mu.Unlock()
						return
					}
					idx := int64(binary.LittleEndian.Uint64(pb))
					rseed := binary.LittleEndian.Uint64(pb[8:])
					rep := readRaceLog(raceLog, cmd.Process.Pid)
					var o workerOut
					if b, e := os.ReadFile(outPath); e == nil {
						json.Unmarshal(b, &o) // statistics flushed before the halt
					}
					o.Violations = append(o.Violations, replayFile{Property: id, Tier: tier, BaseSeed: base, RunIndex: idx, RunSeed: rseed, Signature: "data race: " + raceSig(rep), Detail: rep, Race: true, SeedOnly: true})
					mu.Lock()
					outs = append(outs, &o)
					mu.Unlock()
					violations++
					if violations >= 3 {
						return
					}
					from = idx + int64(nw)
					continue
				}
				b, rerr := os.ReadFile(outPath)
				if rerr != nil {
					mu.Lock()
					infra = fmt.Sprintf("worker %d died without a result (%v):\n%s", k, werr, tail(stderr.String(), 4000))
					mu.Unlock()
					return
				}
				var o workerOut
				if err := json.Unmarshal(b, &o); err != nil {
					mu.Lock()
					infra = "bad worker output: " + err.Error()
					mu.Unlock()
					return
				}
				mu.Lock()
				outs = append(outs, &o)
				mu.Unlock()
				violations += len(o.Violations)
				if len(o.Violations) == 0 || violations >= 3 {
					return
				}
				from = o.LastIndex + int64(nw)
			}
		}(k)
	}
	wg.Wait()
	return outs, infra
}

func tail(s string, n int) string {
	if len(s) > n {
		return s[len(s)-n:]
	}
	return s
}

// selftestDeterminism: for each property, the same run indices are executed
// by several processes at GOMAXPROCS 1, 4 and 16 (three repetitions each);
// the per-run digests (fingerprint of every scheduling decision and of the
// property's state trace, step count, violation signature) must be identical.
func selftestDeterminism(ids []string) int {
	if len(ids) == 0 {
		for id := range props {
			ids = append(ids, id)
		}
		sort.Strings(ids)
	}
	n := int64(3000)
	if v := os.Getenv("VERIF_RUNS"); v != "" {
		n, _ = strconv.ParseInt(v, 10, 64)
	}
	bad := 0
	for _, id := range ids {
		pc := props[id]
		workDir := filepath.Join(verifDir, "work", fmt.Sprintf("det-%s-%d", id, os.Getpid()))
		os.MkdirAll(workDir, 0o755)
		bin := build(workDir, pc.Race)
		type job struct {
			procs, rep int
			sum        string
		}
		var jobs []*job
		for _, p := range []int{1, 4, 16} {
			for rep := 0; rep < 3; rep++ {
				jobs = append(jobs, &job{procs: p, rep: rep})
			}
		}
		var wg sync.WaitGroup
		for _, j := range jobs {
			wg.Add(1)
			go func(j *job) {
				defer wg.Done()
				logPath := filepath.Join(workDir, fmt.Sprintf("ev-%d-%d.log", j.procs, j.rep))
				cmd := exec.Command(bin, "-test.run", "TestWorker", "-test.timeout", "0")
				cmd.Env = append(os.Environ(), "ZSIM_PROP="+id, "ZSIM_TIER=quick", "ZSIM_BASE=77", "ZSIM_FROM=0", "ZSIM_TO="+strconv.FormatInt(n, 10),
					"ZSIM_EVENTLOG="+logPath, "ZSIM_OUT="+logPath+".json", "ZSIM_MAXVIOL=1000000", "ZSIM_TMP="+scratchDir(workDir),
					"ZSIM_KNOWN_FILE="+filepath.Join(verifDir, "known_findings.json"),
					"GOMAXPROCS="+strconv.Itoa(j.procs), "GORACE=halt_on_error=0")
				cmd.Run()
				b, _ := os.ReadFile(logPath)
				j.sum = fmt.Sprintf("%x/%d", fnv64(b), bytes.Count(b, []byte("\n")))
			}(j)
		}
		wg.Wait()
		same := true
		for _, j := range jobs {
			if j.sum != jobs[0].sum {
				same = false
			}
		}
		if same && !strings.HasSuffix(jobs[0].sum, "/0") {
			fmt.Printf("determinism %s: OK (%d runs x 9 processes, GOMAXPROCS 1/4/16, digest %s)\n", id, n, jobs[0].sum)
			os.RemoveAll(workDir)
		} else {
			bad++
			fmt.Printf("determinism %s: DIVERGED\n", id)
			for _, j := range jobs {
				fmt.Printf("  GOMAXPROCS=%d rep %d: %s\n", j.procs, j.rep, j.sum)
			}
			fmt.Printf("  logs kept in %s\n", workDir)
		}
	}
	if bad > 0 {
		return 1
	}
	return 0
}

func fnv64(b []byte) uint64 {
	h := uint64(14695981039346656037)
	for _, c := range b {
		h = (h ^ uint64(c)) * 1099511628211
	}
	return h
}
