// Package simatomic stands in for sync/atomic in zap's non-test sources under
// the overlay: the typed values wrap the real ones and add a yield point
// before every operation. Everything else is re-exported.
package simatomic

import (
	"sync/atomic"
	"unsafe"

	"verif/zsim"
)

// Every typed value yields before each operation: code that replaces a lock
// or a sync.Once by hand-made atomics is interleaved at exactly those points.

type Bool struct{ v atomic.Bool }

func (x *Bool) y()                            { zsim.Yield(zsim.KAtomic, unsafe.Pointer(x)) }
func (x *Bool) Load() bool                    { x.y(); return x.v.Load() }
func (x *Bool) Store(v bool)                  { x.y(); x.v.Store(v) }
func (x *Bool) Swap(v bool) bool              { x.y(); return x.v.Swap(v) }
func (x *Bool) CompareAndSwap(o, n bool) bool { x.y(); return x.v.CompareAndSwap(o, n) }

type Uintptr struct{ v atomic.Uintptr }

func (x *Uintptr) y()                               { zsim.Yield(zsim.KAtomic, unsafe.Pointer(x)) }
func (x *Uintptr) Load() uintptr                    { x.y(); return x.v.Load() }
func (x *Uintptr) Store(v uintptr)                  { x.y(); x.v.Store(v) }
func (x *Uintptr) Swap(v uintptr) uintptr           { x.y(); return x.v.Swap(v) }
func (x *Uintptr) Add(d uintptr) uintptr            { x.y(); return x.v.Add(d) }
func (x *Uintptr) CompareAndSwap(o, n uintptr) bool { x.y(); return x.v.CompareAndSwap(o, n) }

type Pointer[T any] struct{ v atomic.Pointer[T] }

func (x *Pointer[T]) y()                          { zsim.Yield(zsim.KAtomic, unsafe.Pointer(x)) }
func (x *Pointer[T]) Load() *T                    { x.y(); return x.v.Load() }
func (x *Pointer[T]) Store(v *T)                  { x.y(); x.v.Store(v) }
func (x *Pointer[T]) Swap(v *T) *T                { x.y(); return x.v.Swap(v) }
func (x *Pointer[T]) CompareAndSwap(o, n *T) bool { x.y(); return x.v.CompareAndSwap(o, n) }

type Value struct{ v atomic.Value }

func (x *Value) y()                           { zsim.Yield(zsim.KAtomic, unsafe.Pointer(x)) }
func (x *Value) Load() any                    { x.y(); return x.v.Load() }
func (x *Value) Store(v any)                  { x.y(); x.v.Store(v) }
func (x *Value) Swap(v any) any               { x.y(); return x.v.Swap(v) }
func (x *Value) CompareAndSwap(o, n any) bool { x.y(); return x.v.CompareAndSwap(o, n) }

type Int32 struct{ v atomic.Int32 }

func (x *Int32) y()                             { zsim.Yield(zsim.KAtomic, unsafe.Pointer(x)) }
func (x *Int32) Load() int32                    { x.y(); return x.v.Load() }
func (x *Int32) Store(v int32)                  { x.y(); x.v.Store(v) }
func (x *Int32) Swap(v int32) int32             { x.y(); return x.v.Swap(v) }
func (x *Int32) Add(d int32) int32              { x.y(); return x.v.Add(d) }
func (x *Int32) CompareAndSwap(o, n int32) bool { x.y(); return x.v.CompareAndSwap(o, n) }
func (x *Int32) And(m int32) int32              { x.y(); return x.v.And(m) }
func (x *Int32) Or(m int32) int32               { x.y(); return x.v.Or(m) }

type Uint32 struct{ v atomic.Uint32 }

func (x *Uint32) y()                              { zsim.Yield(zsim.KAtomic, unsafe.Pointer(x)) }
func (x *Uint32) Load() uint32                    { x.y(); return x.v.Load() }
func (x *Uint32) Store(v uint32)                  { x.y(); x.v.Store(v) }
func (x *Uint32) Swap(v uint32) uint32            { x.y(); return x.v.Swap(v) }
func (x *Uint32) Add(d uint32) uint32             { x.y(); return x.v.Add(d) }
func (x *Uint32) CompareAndSwap(o, n uint32) bool { x.y(); return x.v.CompareAndSwap(o, n) }

type Int64 struct{ v atomic.Int64 }

func (x *Int64) y()                             { zsim.Yield(zsim.KAtomic, unsafe.Pointer(x)) }
func (x *Int64) Load() int64                    { x.y(); return x.v.Load() }
func (x *Int64) Store(v int64)                  { x.y(); x.v.Store(v) }
func (x *Int64) Swap(v int64) int64             { x.y(); return x.v.Swap(v) }
func (x *Int64) Add(d int64) int64              { x.y(); return x.v.Add(d) }
func (x *Int64) CompareAndSwap(o, n int64) bool { x.y(); return x.v.CompareAndSwap(o, n) }

type Uint64 struct{ v atomic.Uint64 }

func (x *Uint64) y()                              { zsim.Yield(zsim.KAtomic, unsafe.Pointer(x)) }
func (x *Uint64) Load() uint64                    { x.y(); return x.v.Load() }
func (x *Uint64) Store(v uint64)                  { x.y(); x.v.Store(v) }
func (x *Uint64) Swap(v uint64) uint64            { x.y(); return x.v.Swap(v) }
func (x *Uint64) Add(d uint64) uint64             { x.y(); return x.v.Add(d) }
func (x *Uint64) CompareAndSwap(o, n uint64) bool { x.y(); return x.v.CompareAndSwap(o, n) }

// function forms
func LoadInt32(p *int32) int32 {
	zsim.Yield(zsim.KAtomic, unsafe.Pointer(p))
	return atomic.LoadInt32(p)
}
func StoreInt32(p *int32, v int32) {
	zsim.Yield(zsim.KAtomic, unsafe.Pointer(p))
	atomic.StoreInt32(p, v)
}
func AddInt32(p *int32, d int32) int32 {
	zsim.Yield(zsim.KAtomic, unsafe.Pointer(p))
	return atomic.AddInt32(p, d)
}
func CompareAndSwapInt32(p *int32, o, n int32) bool {
	zsim.Yield(zsim.KAtomic, unsafe.Pointer(p))
	return atomic.CompareAndSwapInt32(p, o, n)
}
func SwapInt32(p *int32, v int32) int32 {
	zsim.Yield(zsim.KAtomic, unsafe.Pointer(p))
	return atomic.SwapInt32(p, v)
}
func LoadInt64(p *int64) int64 {
	zsim.Yield(zsim.KAtomic, unsafe.Pointer(p))
	return atomic.LoadInt64(p)
}
func StoreInt64(p *int64, v int64) {
	zsim.Yield(zsim.KAtomic, unsafe.Pointer(p))
	atomic.StoreInt64(p, v)
}
func AddInt64(p *int64, d int64) int64 {
	zsim.Yield(zsim.KAtomic, unsafe.Pointer(p))
	return atomic.AddInt64(p, d)
}
func CompareAndSwapInt64(p *int64, o, n int64) bool {
	zsim.Yield(zsim.KAtomic, unsafe.Pointer(p))
	return atomic.CompareAndSwapInt64(p, o, n)
}
func SwapInt64(p *int64, v int64) int64 {
	zsim.Yield(zsim.KAtomic, unsafe.Pointer(p))
	return atomic.SwapInt64(p, v)
}
func LoadUint32(p *uint32) uint32 {
	zsim.Yield(zsim.KAtomic, unsafe.Pointer(p))
	return atomic.LoadUint32(p)
}
func StoreUint32(p *uint32, v uint32) {
	zsim.Yield(zsim.KAtomic, unsafe.Pointer(p))
	atomic.StoreUint32(p, v)
}
func AddUint32(p *uint32, d uint32) uint32 {
	zsim.Yield(zsim.KAtomic, unsafe.Pointer(p))
	return atomic.AddUint32(p, d)
}
func CompareAndSwapUint32(p *uint32, o, n uint32) bool {
	zsim.Yield(zsim.KAtomic, unsafe.Pointer(p))
	return atomic.CompareAndSwapUint32(p, o, n)
}
func SwapUint32(p *uint32, v uint32) uint32 {
	zsim.Yield(zsim.KAtomic, unsafe.Pointer(p))
	return atomic.SwapUint32(p, v)
}
func LoadUint64(p *uint64) uint64 {
	zsim.Yield(zsim.KAtomic, unsafe.Pointer(p))
	return atomic.LoadUint64(p)
}
func StoreUint64(p *uint64, v uint64) {
	zsim.Yield(zsim.KAtomic, unsafe.Pointer(p))
	atomic.StoreUint64(p, v)
}
func AddUint64(p *uint64, d uint64) uint64 {
	zsim.Yield(zsim.KAtomic, unsafe.Pointer(p))
	return atomic.AddUint64(p, d)
}
func CompareAndSwapUint64(p *uint64, o, n uint64) bool {
	zsim.Yield(zsim.KAtomic, unsafe.Pointer(p))
	return atomic.CompareAndSwapUint64(p, o, n)
}
func SwapUint64(p *uint64, v uint64) uint64 {
	zsim.Yield(zsim.KAtomic, unsafe.Pointer(p))
	return atomic.SwapUint64(p, v)
}
func LoadPointer(p *unsafe.Pointer) unsafe.Pointer {
	zsim.Yield(zsim.KAtomic, unsafe.Pointer(p))
	return atomic.LoadPointer(p)
}
func StorePointer(p *unsafe.Pointer, v unsafe.Pointer) {
	zsim.Yield(zsim.KAtomic, unsafe.Pointer(p))
	atomic.StorePointer(p, v)
}

// the rest of the function forms and the And/Or methods, so that whatever a
// change to zap uses from sync/atomic still builds and still yields
func SwapPointer(p *unsafe.Pointer, v unsafe.Pointer) unsafe.Pointer {
	zsim.Yield(zsim.KAtomic, unsafe.Pointer(p))
	return atomic.SwapPointer(p, v)
}
func CompareAndSwapPointer(p *unsafe.Pointer, o, n unsafe.Pointer) bool {
	zsim.Yield(zsim.KAtomic, unsafe.Pointer(p))
	return atomic.CompareAndSwapPointer(p, o, n)
}
func LoadUintptr(p *uintptr) uintptr {
	zsim.Yield(zsim.KAtomic, unsafe.Pointer(p))
	return atomic.LoadUintptr(p)
}
func StoreUintptr(p *uintptr, v uintptr) {
	zsim.Yield(zsim.KAtomic, unsafe.Pointer(p))
	atomic.StoreUintptr(p, v)
}
func AddUintptr(p *uintptr, d uintptr) uintptr {
	zsim.Yield(zsim.KAtomic, unsafe.Pointer(p))
	return atomic.AddUintptr(p, d)
}
func SwapUintptr(p *uintptr, v uintptr) uintptr {
	zsim.Yield(zsim.KAtomic, unsafe.Pointer(p))
	return atomic.SwapUintptr(p, v)
}
func CompareAndSwapUintptr(p *uintptr, o, n uintptr) bool {
	zsim.Yield(zsim.KAtomic, unsafe.Pointer(p))
	return atomic.CompareAndSwapUintptr(p, o, n)
}
func AndInt32(p *int32, m int32) int32 {
	zsim.Yield(zsim.KAtomic, unsafe.Pointer(p))
	return atomic.AndInt32(p, m)
}
func OrInt32(p *int32, m int32) int32 {
	zsim.Yield(zsim.KAtomic, unsafe.Pointer(p))
	return atomic.OrInt32(p, m)
}
func AndUint32(p *uint32, m uint32) uint32 {
	zsim.Yield(zsim.KAtomic, unsafe.Pointer(p))
	return atomic.AndUint32(p, m)
}
func OrUint32(p *uint32, m uint32) uint32 {
	zsim.Yield(zsim.KAtomic, unsafe.Pointer(p))
	return atomic.OrUint32(p, m)
}
func AndInt64(p *int64, m int64) int64 {
	zsim.Yield(zsim.KAtomic, unsafe.Pointer(p))
	return atomic.AndInt64(p, m)
}
func OrInt64(p *int64, m int64) int64 {
	zsim.Yield(zsim.KAtomic, unsafe.Pointer(p))
	return atomic.OrInt64(p, m)
}
func AndUint64(p *uint64, m uint64) uint64 {
	zsim.Yield(zsim.KAtomic, unsafe.Pointer(p))
	return atomic.AndUint64(p, m)
}
func OrUint64(p *uint64, m uint64) uint64 {
	zsim.Yield(zsim.KAtomic, unsafe.Pointer(p))
	return atomic.OrUint64(p, m)
}
func AndUintptr(p *uintptr, m uintptr) uintptr {
	zsim.Yield(zsim.KAtomic, unsafe.Pointer(p))
	return atomic.AndUintptr(p, m)
}
func OrUintptr(p *uintptr, m uintptr) uintptr {
	zsim.Yield(zsim.KAtomic, unsafe.Pointer(p))
	return atomic.OrUintptr(p, m)
}

func (x *Uint32) And(m uint32) uint32    { x.y(); return x.v.And(m) }
func (x *Uint32) Or(m uint32) uint32     { x.y(); return x.v.Or(m) }
func (x *Int64) And(m int64) int64       { x.y(); return x.v.And(m) }
func (x *Int64) Or(m int64) int64        { x.y(); return x.v.Or(m) }
func (x *Uint64) And(m uint64) uint64    { x.y(); return x.v.And(m) }
func (x *Uint64) Or(m uint64) uint64     { x.y(); return x.v.Or(m) }
func (x *Uintptr) And(m uintptr) uintptr { x.y(); return x.v.And(m) }
func (x *Uintptr) Or(m uintptr) uintptr  { x.y(); return x.v.Or(m) }
