module verif

go 1.26

require (
	github.com/anishathalye/porcupine v1.3.0
	go.uber.org/zap v1.26.0
	go.uber.org/zap/exp v0.0.0
)

require (
	go.uber.org/multierr v1.10.0
	gopkg.in/yaml.v3 v3.0.1
)

replace go.uber.org/zap => /repo

replace go.uber.org/zap/exp => /repo/exp
