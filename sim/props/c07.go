package props

import (
	"bytes"
	"context"
	"encoding/json"
	"errors"
	"fmt"
	"io"
	"log/slog"
	"reflect"
	"sort"
	"strconv"
	"strings"
	"time"
	"unsafe"

	"go.uber.org/zap"
	"go.uber.org/zap/exp/zapslog"
	"go.uber.org/zap/zapcore"
	"go.uber.org/zap/zaptest/observer"

	"verif/simsync"
	"verif/zsim"
)

// C07 — logger context is exact and isolated across derived loggers.

func init() {
	register(&Prop{
		ID:  "C07",
		Run: runC07,
		Rule: "one case = a derivation program of <= 24 operations (derive by With / WithLazy / Named / WithOptions(Fields) / Sugar().With+Desugar / slog WithAttrs with field lists of 0-9 fields incl. namespaces, nested objects, objects whose marshaler fails and mutable marshalers; log through Logger, Sugar or slog front ends; mutate a shared marshaler) over a core stack drawn from JSON / console / observer leaves, tees of them and sampler / hooked / level-increase / lazy wrappers, executed by one task (with mutation and lazy-forcing semantics) or by 2-3 tasks deriving from and logging through shared nodes under a seeded schedule; after every log a probe log on a random earlier node; " +
			"non-trivial = at least 3 loggers in the tree and at least 2 log operations; distinct = distinct hash of (program, core stack, scheduling decisions)",
		Real: []string{"zap.Logger clone/With/WithLazy/Named/WithOptions, SugaredLogger.With/Desugar, zapslog.Handler.WithAttrs", "ioCore.With + jsonEncoder.Clone, console encoder, multiCore.With, sampler.With, hooked.With, levelFilterCore.With, lazyWithCore", "observer.With"},
		Stub: []string{"leaf sinks (zsim.SimSink)", "mutable ObjectMarshaler", "clock"},
	})
}

const (
	c7Int = iota
	c7Str
	c7NS
	c7Obj
	c7Mut
	c7Refl
	c7Err
	c7Arr
	c7Fail // an object whose marshaler fails after one member: its own content is not judged, the "<key>Error" field and everything around it is
	// c7ReflFail: a reflected value whose (streaming) reflected encoder fails
	// after it has written part of the value; only drawn when the leaves use
	// such an encoder. Nothing of the value appears, its "<key>Error" does.
	c7ReflFail
	// c7Skip: a field that adds nothing (zap.Skip(), zap.Error(nil))
	c7Skip
)

// c7poison is the value the streaming reflected encoder fails on.
type c7poison struct{ N int }

// c7streamEncoder is a zapcore.ReflectedEncoder that, unlike encoding/json,
// writes as it goes: a failure leaves a partial value in the writer it was
// given.
type c7streamEncoder struct {
	w  io.Writer
	je *json.Encoder
}

func (e *c7streamEncoder) Encode(v any) error {
	if p, ok := v.(c7poison); ok {
		fmt.Fprintf(e.w, `{"r":[%d,`, p.N)
		return fmt.Errorf("reflect-boom%d", p.N)
	}
	return e.je.Encode(v)
}

func c7newEncoder(console, stream bool) zapcore.Encoder {
	cfg := encCfg()
	if stream {
		cfg.NewReflectedEncoder = func(w io.Writer) zapcore.ReflectedEncoder {
			return &c7streamEncoder{w: w, je: json.NewEncoder(w)}
		}
	}
	if console {
		return zapcore.NewConsoleEncoder(cfg)
	}
	return zapcore.NewJSONEncoder(cfg)
}

// c7wild matches any value in the expected context.
type c7wild struct{}

type c7failing struct{ n int }

func (f c7failing) MarshalLogObject(enc zapcore.ObjectEncoder) error {
	enc.AddInt("p", f.n)
	return fmt.Errorf("boom%d", f.n)
}

// c7match: deep equality of decoded contexts, with c7wild in the expectation
// matching anything.
func c7match(got, want any) bool {
	if _, ok := want.(c7wild); ok {
		return true
	}
	wo, ok := want.([]jkv)
	if !ok {
		return reflect.DeepEqual(got, want)
	}
	gobj, ok := got.([]jkv)
	if !ok || len(gobj) != len(wo) {
		return false
	}
	for i := range wo {
		if gobj[i].k != wo[i].k || !c7match(gobj[i].v, wo[i].v) {
			return false
		}
	}
	return true
}

type c7field struct {
	kind int
	key  string
	ival int
	mut  int
	snap int     // value of the mutable marshaler captured for this field (eager fields: at derivation)
	lz   *c7lazy // lazy fields: evaluated once, somewhere inside a window
}

// c7lazy: the text says a WithLazy field is evaluated "at first use". Whether
// deriving an eager child on top of the lazy logger already counts as use is
// not said, so the model is set-valued: the value may be any the marshaler had
// between the first such derivation and the first log call through the logger
// or a descendant — but it is evaluated once: the first observation fixes it.
type c7lazy struct {
	open   bool // an eager derivation on top has happened
	closed bool // a log call went through: evaluated for certain
	cands  []int
	fixed  bool
	val    int
}

func (l *c7lazy) add(v int) {
	for _, x := range l.cands {
		if x == v {
			return
		}
	}
	l.cands = append(l.cands, v)
}

type c7mut struct {
	w *c7world
	i int
}

func (m c7mut) MarshalLogObject(enc zapcore.ObjectEncoder) error {
	enc.AddInt("v", m.w.muts[m.i])
	return nil
}

type c7static struct{ n int }

func (s c7static) MarshalLogObject(enc zapcore.ObjectEncoder) error {
	enc.AddInt("a", s.n)
	enc.AddString("b", "x")
	return nil
}

const (
	c7Root = iota
	c7With
	c7WithLazy
	c7Named
	c7Options
	c7SugarWith
	c7Slog
)

var c7howNames = [...]string{"root", "With", "WithLazy", "Named", "WithOptions(Fields)", "Sugar.With", "slog.WithAttrs"}

type c7node struct {
	id       int
	parent   *c7node
	how      int
	name     string // own name segment (Named)
	fields   []c7field
	lazy     bool
	forced   bool
	owner    int // task that owns it (-1 shared)
	viaSugar bool
	lg       *zap.Logger
	sl       *slog.Logger // slog nodes only
}

type c7leaf struct {
	kind int // 0 json, 1 console, 2 observer
	sink *zsim.SimSink
	logs *observer.ObservedLogs
}

type c7world struct {
	c      *Ctx
	muts   []int
	nodes  []*c7node
	leaves []*c7leaf
	base   []c7field // fields added by a lazy-with wrapper around the whole stack
	// streamRefl: the leaves' encoders use a streaming reflected encoder
	streamRefl  bool
	nsHeavy     bool                // namespaces are the most frequent field kind in this run
	scratch     map[int][]zap.Field // per task: the field slice it reuses for derivations
	scratchWant map[int][]zap.Field // what the task put into it for the derivation in progress
}

type c7op struct {
	kind   int // 0 derive, 1 log, 2 mutate
	node   int // parent (derive) or logger (log)
	how    int
	name   string
	fields []c7field
	group  string // slog derivation: open this group before the attributes
	front  int    // 0 Logger, 1 Sugar, 2 Check+Write
	mut    int
	msg    string
	task   int
	newID  int
	// filled when executed: expected context at that moment
	expCtx  []c7field
	expName string
	done    bool
	seq     int
	obs     map[int][]zapcore.Field // per observer leaf: the context as read right after the call
}

func (w *c7world) zapFields(fs []c7field) []zap.Field {
	out := make([]zap.Field, 0, len(fs))
	for _, f := range fs {
		switch f.kind {
		case c7Int:
			out = append(out, zap.Int(f.key, f.ival))
		case c7Str:
			out = append(out, zap.String(f.key, fmt.Sprintf("s%d", f.ival)))
		case c7NS:
			out = append(out, zap.Namespace(f.key))
		case c7Obj:
			out = append(out, zap.Object(f.key, c7static{f.ival}))
		case c7Mut:
			out = append(out, zap.Object(f.key, c7mut{w, f.mut}))
		case c7Refl:
			out = append(out, zap.Reflect(f.key, yieldJSON{f.ival}))
		case c7Err:
			out = append(out, zap.NamedError(f.key, fmt.Errorf("e%d", f.ival)))
		case c7Arr:
			out = append(out, zap.Ints(f.key, []int{f.ival, f.ival + 1}))
		case c7Fail:
			out = append(out, zap.Object(f.key, c7failing{f.ival}))
		case c7ReflFail:
			out = append(out, zap.Reflect(f.key, c7poison{f.ival}))
		case c7Skip:
			if f.ival%2 == 0 {
				out = append(out, zap.Skip())
			} else {
				out = append(out, zap.Error(nil))
			}
		}
	}
	return out
}

// scratchFields: like zapFields, but into a slice the task reuses for every
// derivation (a scratch slice spread into With/Fields with "..."), which
// poisonScratch overwrites as soon as the derivation has returned: a logger
// must not keep the caller's slice.
func (w *c7world) scratchFields(task int, fs []c7field) []zap.Field {
	if w.scratch == nil {
		w.scratch = map[int][]zap.Field{}
	}
	out := append(w.scratch[task][:0], w.zapFields(fs)...)
	w.scratch[task] = out
	if w.scratchWant == nil {
		w.scratchWant = map[int][]zap.Field{}
	}
	w.scratchWant[task] = append([]zap.Field(nil), out...)
	return out
}

func c7keys(fs []zap.Field) []string {
	var ks []string
	for _, f := range fs {
		ks = append(ks, fmt.Sprintf("%s/%d", f.Key, f.Type))
	}
	return ks
}

func (w *c7world) poisonScratch(task int) {
	sc := w.scratch[task]
	// first: the derivation must have left the caller's slice as it was (the
	// next logger derived from the same slice would otherwise carry other fields)
	if want := w.scratchWant[task]; !reflect.DeepEqual(append([]zap.Field(nil), sc...), want) {
		w.c.Fail("C07: a derivation changed the field slice of its caller", "the slice spread into With/Fields held %d fields %v before the call and holds %v after it", len(want), c7keys(want), c7keys(sc))
	}
	for i := range sc[:cap(sc)] {
		sc[:cap(sc)][i] = zap.String("poisoned-scratch-slot", "the caller reused its field slice")
	}
}

func (w *c7world) sugarArgs(fs []c7field) []any {
	var out []any
	for _, f := range fs {
		switch f.kind {
		case c7Int:
			out = append(out, f.key, f.ival)
		case c7Str:
			out = append(out, f.key, fmt.Sprintf("s%d", f.ival))
		default:
			out = append(out, w.zapFields([]c7field{f})[0])
		}
	}
	return out
}

// expected ordered JSON object for a field list
func c7expect(fs []c7field) []jkv {
	out := []jkv{}
	for i, f := range fs {
		switch f.kind {
		case c7Int:
			out = append(out, jkv{f.key, json.Number(strconv.Itoa(f.ival))})
		case c7Str:
			out = append(out, jkv{f.key, fmt.Sprintf("s%d", f.ival)})
		case c7Obj:
			out = append(out, jkv{f.key, []jkv{{"a", json.Number(strconv.Itoa(f.ival))}, {"b", "x"}}})
		case c7Mut:
			v := f.snap
			if f.lz != nil {
				v = f.lz.val
			}
			out = append(out, jkv{f.key, []jkv{{"v", json.Number(strconv.Itoa(v))}}})
		case c7Refl:
			out = append(out, jkv{f.key, []jkv{{"r", json.Number(strconv.Itoa(f.ival))}}})
		case c7Err:
			out = append(out, jkv{f.key, fmt.Sprintf("e%d", f.ival)})
		case c7Arr:
			out = append(out, jkv{f.key, []any{json.Number(strconv.Itoa(f.ival)), json.Number(strconv.Itoa(f.ival + 1))}})
		case c7Fail:
			out = append(out, jkv{f.key, c7wild{}}, jkv{f.key + "Error", fmt.Sprintf("boom%d", f.ival)})
		case c7ReflFail:
			out = append(out, jkv{f.key + "Error", fmt.Sprintf("reflect-boom%d", f.ival)})
		case c7NS:
			out = append(out, jkv{f.key, c7expect(fs[i+1:])})
			return out
		}
	}
	return out
}

func (w *c7world) snapshot(fs []c7field) []c7field {
	out := append([]c7field(nil), fs...)
	for i := range out {
		if out[i].kind == c7Mut {
			out[i].snap = w.muts[out[i].mut]
		}
	}
	return out
}

// touch: an eager derivation on top of n may already evaluate the pending
// lazy fields of n and its ancestors (window opens); use: a log call through
// n or a descendant certainly has (window closes).
func (w *c7world) touch(n *c7node, use bool) {
	for x := n; x != nil; x = x.parent {
		if !x.lazy || x.forced {
			continue
		}
		for i := range x.fields {
			lz := x.fields[i].lz
			if lz == nil {
				continue
			}
			lz.open = true
			lz.add(w.muts[x.fields[i].mut])
			if use {
				lz.closed = true
			}
		}
		if use {
			x.forced = true
		}
	}
}

func (w *c7world) force(n *c7node) { w.touch(n, false) }

// mutated: every lazy field whose window is open may see the new value
func (w *c7world) mutated(m int) {
	for _, x := range w.nodes {
		if x == nil || !x.lazy || x.forced {
			continue
		}
		for i := range x.fields {
			if lz := x.fields[i].lz; lz != nil && lz.open && !lz.closed && x.fields[i].mut == m {
				lz.add(w.muts[m])
			}
		}
	}
}

func (w *c7world) context(n *c7node) (name string, ctx []c7field) {
	var chain []*c7node
	for x := n; x != nil; x = x.parent {
		chain = append(chain, x)
	}
	var names []string
	ctx = append(ctx, w.base...)
	for i := len(chain) - 1; i >= 0; i-- {
		x := chain[i]
		if x.name != "" {
			names = append(names, x.name)
		}
		ctx = append(ctx, x.fields...)
	}
	return strings.Join(names, "."), ctx
}

func (w *c7world) genFields(g *zsim.Stream, id int, allowMut bool, slogOnly bool) []c7field {
	n := []int{0, 1, 1, 2, 2, 3, 4, 5, 8, 9}[g.Draw(10)]
	var out []c7field
	for j := 0; j < n; j++ {
		f := c7field{key: fmt.Sprintf("f%d_%d", id, j), ival: g.Draw(50)}
		wts := []int{4, 3, 1, 2, 0, 2, 1, 2, 1, 0, 1}
		if w.streamRefl {
			wts[c7ReflFail], wts[c7Refl] = 2, 4
		}
		if allowMut {
			wts[c7Mut] = 3
		}
		if w.nsHeavy {
			wts[c7NS] = 7
		}
		if slogOnly {
			wts = []int{4, 3, 0, 0, 0, 0, 0, 0, 0, 0, 0}
		}
		f.kind = g.Weighted(wts...)
		if f.kind == c7Mut {
			f.mut = g.Draw(len(w.muts))
		}
		out = append(out, f)
	}
	return out
}

func runC07(c *Ctx) {
	g, r := c.G, c.R
	w := &c7world{c: c}
	simsync.SetPolicy(pick(g, simsync.PoolLIFO, simsync.PoolLIFO, simsync.PoolFIFO, simsync.PoolRandom), uint64(g.Draw(1<<16))+1, 0)
	guardDone := guardOn(c)
	defer guardDone()
	nTasks := 1
	if g.Chance(3) {
		nTasks = 2 + g.Draw(2)
	}
	mutation := nTasks == 1 && g.Chance(2)
	if mutation {
		w.muts = make([]int, 1+g.Draw(3))
	}
	// one run in four: the encoders use a streaming reflected encoder and some
	// reflected values make it fail half-way
	w.streamRefl = g.Chance(4)
	if w.streamRefl {
		c.R.Probe("streaming reflected encoder with values it fails on")
	}
	// one run in six starts in the dark: every destination hangs on one dynamic
	// level that enables nothing while the first loggers are derived, and is
	// switched on just before the first entry is logged
	dark := g.Chance(6)
	darkLevel := zap.NewAtomicLevelAt(zapcore.InvalidLevel)
	if dark {
		c.R.Probe("derivations made while every level is off")
	}
	// ---- core stack ----
	nLeaves := 1 + g.Weighted(4, 2, 1)
	var cores []zapcore.Core
	var stackDesc []string
	for i := 0; i < nLeaves; i++ {
		lf := &c7leaf{kind: g.Weighted(4, 2, 2)}
		if (mutation || w.streamRefl) && lf.kind == 2 {
			lf.kind = 0 // an observer keeps the marshaler (the reflected value) itself, not its encoding
		}
		// every leaf enables the levels the program logs at (info, warn), but
		// not necessarily by a plain threshold: "low priority only" enablers
		// (as in zap's own advanced-configuration example) reject error and up
		var enab zapcore.LevelEnabler = zapcore.DebugLevel
		if dark {
			enab = darkLevel
		} else {
			switch g.Draw(4) {
			case 1:
				enab = zap.LevelEnablerFunc(func(l zapcore.Level) bool { return l < zapcore.ErrorLevel })
			case 2:
				enab = zap.NewAtomicLevelAt(zapcore.InfoLevel)
			}
		}
		switch lf.kind {
		case 0, 1:
			lf.sink = zsim.NewSimSink(r, fmt.Sprintf("leaf%d", i), 1, uint64(i)+5)
			r.Label(unsafe.Pointer(lf.sink), lf.sink.Name)
			cores = append(cores, zapcore.NewCore(c7newEncoder(lf.kind == 1, w.streamRefl), zapcore.Lock(lf.sink), enab))
		case 2:
			oc, logs := observer.New(enab)
			lf.logs = logs
			cores = append(cores, oc)
		}
		stackDesc = append(stackDesc, []string{"json", "console", "observer"}[lf.kind])
		w.leaves = append(w.leaves, lf)
	}
	if c.F.Chance(4) {
		// one more destination whose device fails now and then (write errors,
		// torn writes): it is not judged, but what happens on its error paths
		// must not leak into the contexts of the loggers derived afterwards
		fl := zsim.NewSimSink(r, "flaky", 1, 91)
		for i := 0; i < 40; i++ {
			switch c.F.Draw(4) {
			case 0:
				fl.WritePlan = append(fl.WritePlan, zsim.Outcome{Short: -1, Err: errors.New("injected write error")})
			case 1:
				fl.WritePlan = append(fl.WritePlan, zsim.Outcome{Short: 1 + c.F.Draw(20), Err: errors.New("injected torn write")})
			default:
				fl.WritePlan = append(fl.WritePlan, zsim.Outcome{})
			}
		}
		var flEnab zapcore.LevelEnabler = zapcore.DebugLevel
		if dark {
			flEnab = darkLevel
		}
		cores = append(cores, zapcore.NewCore(newEncoder(false), zapcore.Lock(fl), flEnab))
		stackDesc = append(stackDesc, "flaky-json(not judged)")
		c.Fault("flaky-destination")
	}
	core := zapcore.NewTee(cores...)
	switch g.Weighted(3, 1, 1, 1, 1) {
	case 1:
		core = zapcore.NewSamplerWithOptions(core, time.Second, 1<<30, 0)
		stackDesc = append(stackDesc, "under sampler")
	case 2:
		core = zapcore.RegisterHooks(core, func(zapcore.Entry) error { return nil })
		stackDesc = append(stackDesc, "under hooks")
	case 3:
		ic, err := zapcore.NewIncreaseLevelCore(core, zapcore.DebugLevel)
		if err == nil {
			core = ic
			stackDesc = append(stackDesc, "under increase-level")
		}
	case 4:
		w.base = []c7field{{kind: c7Int, key: "base0", ival: 7}, {kind: c7Str, key: "base1", ival: 8}}
		core = zapcore.NewLazyWith(core, w.zapFields(w.base))
		stackDesc = append(stackDesc, "under lazy-with")
	}
	root := &c7node{id: 0, how: c7Root, owner: -1, lg: zap.New(core, zap.ErrorOutput(zapcore.AddSync(io.Discard)))}
	w.nodes = []*c7node{root}

	// ---- program ----
	maxOps := 12
	if c.Tier == "thorough" {
		maxOps = 24
	}
	nOps := 2 + g.Draw(maxOps)
	deep := g.Chance(10)
	if deep {
		nOps = 30 + g.Draw(24) // now and then many and deep derivations
		c.R.Probe("derivation program of 30-53 operations")
	}
	// half of the deep programs build one long chain in which namespaces pile
	// up: dozens of them are open at the end of an entry
	nsChain := deep && g.Chance(2)
	w.nsHeavy = nsChain
	if nsChain {
		c.R.Probe("a derivation chain that opens namespaces at most steps")
	}
	nShared := 0
	if nTasks > 1 {
		nShared = 1 + g.Draw(4)
	}
	var ops []*c7op
	type gnode struct {
		owner   int
		slog    bool
		nameLen int // length of the dot-joined name of the node's path
	}
	gn := []gnode{{owner: -1}}
	maxNodes := 10
	if deep {
		maxNodes = 28
	}
	logN := 0
	for i := 0; i < nOps; i++ {
		op := &c7op{}
		shared := nTasks > 1 && i < nShared
		op.task = 0
		if nTasks > 1 && !shared {
			op.task = g.Draw(nTasks)
		}
		// nodes this op may use: shared ones, or those owned by its task
		var usable []int
		for id, x := range gn {
			if x.owner == -1 || (!shared && x.owner == op.task) || nTasks == 1 {
				usable = append(usable, id)
			}
		}
		kindW := []int{5, 5, 0, 1}
		if shared {
			kindW = []int{1, 0, 0, 0}
		}
		if mutation {
			kindW[2] = 2
		}
		if len(gn) >= maxNodes {
			kindW[0] = 0
			if shared {
				kindW[1] = 1
			}
		}
		op.kind = g.Weighted(kindW...)
		switch op.kind {
		case 0:
			op.node = usable[g.Draw(len(usable))]
			if nsChain && !g.Chance(5) {
				op.node = usable[len(usable)-1]
			}
			if gn[op.node].slog {
				op.how = c7Slog
			} else {
				op.how = 1 + g.Weighted(4, 3, 2, 1, 2, 1)
			}
			op.newID = len(gn)
			op.front = g.Draw(2) // 1 = through the sugared equivalent
			if op.how == c7Slog && g.Chance(3) {
				op.group = fmt.Sprintf("g%d", op.newID)
			}
			switch op.how {
			case c7Named:
				op.name = pick(g, "a", "svc", "", "x.y", "b", ".edge", "tail.", ".", "a b")
				if g.Chance(2) {
					// aim at the sizes where fixed-size storage for "short" names
					// would end: the segment is as long as it takes for the joined
					// name, or the two parts without the dot, to reach 2^k-1, 2^k, 2^k+1
					target := pick(g, 15, 16, 17, 31, 32, 33, 63, 64, 65, 127, 128, 129, 255, 256, 257)
					l := target - gn[op.node].nameLen - g.Draw(2)
					if l >= 1 {
						op.name = strings.Repeat(string(rune('k'+len(gn)%8)), l)
						c.R.Probe("logger name reaching a power-of-two length")
					}
				}
			default:
				op.fields = w.genFields(g, op.newID, mutation && op.how != c7Slog, op.how == c7Slog)
			}
			owner := op.task
			if shared || nTasks == 1 {
				owner = -1
			}
			nl := gn[op.node].nameLen
			if op.how == c7Named && op.name != "" {
				if nl > 0 {
					nl++
				}
				nl += len(op.name)
			}
			gn = append(gn, gnode{owner: owner, slog: op.how == c7Slog, nameLen: nl})
		case 1:
			op.node = usable[g.Draw(len(usable))]
			logN++
			op.msg = fmt.Sprintf("L%d", logN)
			op.front = g.Draw(3)
			op.fields = w.genFields(g, 1000+logN, mutation && !gn[op.node].slog, gn[op.node].slog)
		case 2:
			op.mut = g.Draw(len(w.muts))
		case 3:
			// a derivation that is abandoned: one of the fields has a marshaler
			// that panics, the application recovers; no logger comes of it, and
			// the node it was derived from, its ancestors and siblings are as before
			op.node = usable[g.Draw(len(usable))]
			if gn[op.node].slog {
				op.kind = 2
				if !mutation {
					continue
				}
				op.mut = g.Draw(len(w.muts))
			} else {
				op.fields = w.genFields(g, 5000+len(ops), false, false)
			}
		}
		ops = append(ops, op)
		c.MixState(uint64(op.kind)<<16 | uint64(op.how)<<12 | uint64(op.node)<<4 | uint64(len(op.fields)))
	}
	c.Describe("stack=[%s] tasks=%d shared-prefix=%d mutation=%v policy=%s", strings.Join(stackDesc, " "), nTasks, nShared, mutation, r.Policy)
	var pd []string
	for _, op := range ops {
		switch op.kind {
		case 0:
			pd = append(pd, fmt.Sprintf("t%d:n%d=n%d.%s(%s%d fields)", op.task, op.newID, op.node, c7howNames[op.how], op.name, len(op.fields)))
		case 1:
			pd = append(pd, fmt.Sprintf("t%d:log(n%d,fe%d,%d fields)", op.task, op.node, op.front, len(op.fields)))
		case 2:
			pd = append(pd, fmt.Sprintf("mutate(m%d)", op.mut))
		case 3:
			pd = append(pd, fmt.Sprintf("t%d:abandoned-With(n%d,%d fields+panicking marshaler)", op.task, op.node, len(op.fields)))
		}
	}
	c.Describe("%s", strings.Join(pd, " "))

	// ---- executing an op ----
	// nodes are appended in op order: pre-size so that concurrent tasks fill
	// their own slots
	w.nodes = append(w.nodes, make([]*c7node, len(gn)-1)...)
	var probes []*c7op
	probeN := 0
	seq := 0
	doLog := func(n *c7node, op *c7op) {
		if mutation {
			w.touch(n, true)
		}
		seq++
		op.seq = seq
		op.expName, op.expCtx = w.context(n)
		op.expCtx = append(op.expCtx, w.snapshot(op.fields)...)
		if n.sl != nil {
			var attrs []any
			for _, f := range op.fields {
				if f.kind == c7Int {
					attrs = append(attrs, slog.Int(f.key, f.ival))
				} else {
					attrs = append(attrs, slog.String(f.key, fmt.Sprintf("s%d", f.ival)))
				}
			}
			n.sl.Log(context.Background(), slog.LevelInfo, op.msg, attrs...)
		} else {
			switch op.front {
			case 0:
				n.lg.Info(op.msg, w.zapFields(op.fields)...)
			case 1:
				n.lg.Sugar().Infow(op.msg, w.sugarArgs(op.fields)...)
			default:
				if ce := n.lg.Check(zapcore.WarnLevel, op.msg); ce != nil {
					ce.Write(w.zapFields(op.fields)...)
				}
			}
		}
		// the reader of an observer does what it likes with the entry it is
		// handed (here: it keeps a copy of the context and masks every field in
		// place, as a test that hides tokens before comparing would): that entry
		// is its own, no logger's later output may depend on it
		for li, lf := range w.leaves {
			if lf.kind != 2 {
				continue
			}
			es := lf.logs.FilterMessage(op.msg).All()
			if len(es) != 1 {
				continue // judged at the end
			}
			if op.obs == nil {
				op.obs = map[int][]zapcore.Field{}
			}
			op.obs[li] = append([]zapcore.Field(nil), es[0].Context...)
			for j := range es[0].Context {
				es[0].Context[j] = zap.String("masked-by-the-reader", "x")
			}
		}
		op.done = true
	}
	exec := func(op *c7op) {
		switch op.kind {
		case 0:
			p := w.nodes[op.node]
			n := &c7node{id: op.newID, parent: p, how: op.how, owner: op.task}
			if p.lg != nil && op.newID%3 == 1 {
				// a Sync of the parent before the derivation: it may evaluate
				// pending lazy fields, it must not change anybody's context
				if mutation {
					w.force(p)
				}
				_ = p.lg.Sync()
				c.R.Probe("parent logger synced before a derivation")
			}
			switch op.how {
			case c7With:
				n.fields = w.snapshot(op.fields)
				if mutation {
					w.force(p)
				}
				n.lg = p.lg.With(w.scratchFields(op.task, op.fields)...)
				w.poisonScratch(op.task)
			case c7WithLazy:
				n.fields = append([]c7field(nil), op.fields...)
				n.viaSugar = op.front == 1
				for i := range n.fields {
					if n.fields[i].kind == c7Mut {
						n.fields[i].lz = &c7lazy{}
					}
				}
				n.lazy = true
				if op.front == 1 {
					n.lg = p.lg.Sugar().WithLazy(w.sugarArgs(op.fields)...).Desugar()
				} else {
					// (a fresh slice: whether WithLazy may keep the caller's variadic
					// slice until first use is not judged - "evaluating its fields at
					// first use" can be read either way)
					n.lg = p.lg.WithLazy(w.zapFields(op.fields)...)
				}
			case c7Named:
				n.name = op.name
				if op.front == 1 {
					n.lg = p.lg.Sugar().Named(op.name).Desugar()
				} else {
					n.lg = p.lg.Named(op.name)
				}
			case c7Options:
				n.fields = w.snapshot(op.fields)
				if mutation {
					w.force(p)
				}
				if op.front == 1 {
					n.lg = p.lg.Sugar().WithOptions(zap.Fields(w.zapFields(op.fields)...)).Desugar()
				} else {
					n.lg = p.lg.WithOptions(zap.Fields(w.scratchFields(op.task, op.fields)...))
					w.poisonScratch(op.task)
				}
			case c7SugarWith:
				n.fields = w.snapshot(op.fields)
				if mutation {
					w.force(p)
				}
				n.lg = p.lg.Sugar().With(w.sugarArgs(op.fields)...).Desugar()
			case c7Slog:
				n.fields = w.snapshot(op.fields)
				if mutation {
					w.force(p)
				}
				var attrs []slog.Attr
				for _, f := range op.fields {
					if f.kind == c7Int {
						attrs = append(attrs, slog.Int(f.key, f.ival))
					} else {
						attrs = append(attrs, slog.String(f.key, fmt.Sprintf("s%d", f.ival)))
					}
				}
				var h slog.Handler
				if p.sl != nil {
					h = p.sl.Handler()
				} else {
					pname, _ := w.context(p)
					h = zapslog.NewHandler(p.lg.Core(), zapslog.WithName(pname))
					// a handler built from a node's core carries the core's context only
				}
				if op.group != "" && len(attrs) > 0 {
					// a group that is followed by attributes is a namespace
					h = h.WithGroup(op.group)
					n.fields = append([]c7field{{kind: c7NS, key: op.group}}, n.fields...)
				}
				h = h.WithAttrs(attrs)
				n.sl = slog.New(h)
			}
			w.nodes[op.newID] = n
		case 1:
			if dark {
				darkLevel.SetLevel(zapcore.DebugLevel)
			}
			doLog(w.nodes[op.node], op)
			// probe: an earlier node (usable by this task) must still give its own context
			var cand []*c7node
			for _, x := range w.nodes[:op.node+1] {
				if x != nil && (x.owner == -1 || x.owner == op.task || nTasks == 1) {
					cand = append(cand, x)
				}
			}
			if len(cand) > 0 {
				probeN++
				pn := cand[(op.node+probeN+len(op.fields))%len(cand)]
				po := &c7op{kind: 1, node: pn.id, msg: fmt.Sprintf("P%d-%d", op.task, probeN), front: probeN % 3, task: op.task}
				if pn.sl != nil {
					po.front = 0
				}
				doLog(pn, po)
				probes = append(probes, po)
			}
		case 2:
			w.muts[op.mut]++
			w.mutated(op.mut)
		case 3:
			if mutation {
				w.force(w.nodes[op.node]) // an eager derivation on top, even an abandoned one, may evaluate lazy fields below
			}
			func() {
				defer func() { _ = recover() }()
				fs := append(w.zapFields(op.fields), zap.Namespace("abandoned"), zap.Object("boom", c8panicObj{}))
				_ = w.nodes[op.node].lg.With(fs...)
			}()
			c.R.Probe("derivation abandoned by a panicking marshaler, recovered")
		}
	}

	if nTasks == 1 {
		r.Go("t0", func() {
			for _, op := range ops {
				exec(op)
				zsim.Yield(zsim.KOp, nil)
			}
		})
	} else {
		if nShared > len(ops) {
			nShared = len(ops)
		}
		for _, op := range ops[:nShared] {
			exec(op)
		}
		var perTaskProbes [][]*c7op = make([][]*c7op, nTasks)
		_ = perTaskProbes
		for t := 0; t < nTasks; t++ {
			t := t
			r.Go(fmt.Sprintf("t%d", t), func() {
				for _, op := range ops[nShared:] {
					if op.task != t {
						continue
					}
					exec(op)
					zsim.Yield(zsim.KOp, nil)
				}
			})
		}
	}
	c.Sim()

	if !r.Failed() && g.Chance(4) {
		// an encoder configuration that emits no header at all (every key is
		// optional): the derivation context is then the first thing in the line
		var buf bytes.Buffer
		hl := zap.New(zapcore.NewCore(zapcore.NewJSONEncoder(zapcore.EncoderConfig{LineEnding: "\n"}), zapcore.AddSync(&buf), zapcore.DebugLevel))
		hl.Info("no header", zap.Int("c", 1))
		hl.With(zap.String("a", "x")).Info("no header", zap.Int("c", 2))
		hl.Named("n").WithOptions(zap.Fields(zap.Int("f", 3))).Sugar().With("s", 4).Infow("no header", "c", 5)
		hl.With(zap.Namespace("ns"), zap.Int("in", 6)).Info("no header")
		want := "{\"c\":1}\n{\"a\":\"x\",\"c\":2}\n{\"f\":3,\"s\":4,\"c\":5}\n{\"ns\":{\"in\":6}}\n"
		if buf.String() != want {
			c.Fail("C07: an entry does not carry exactly the fields of its own derivation path followed by its call-site fields", "JSON encoder without any header key: got %q, expected %q", buf.String(), want)
			return
		}
		c.R.Probe("encoder configuration without any header key")
	}

	// ---- judge every log and probe ----
	all := append([]*c7op{}, probes...)
	nLogs := 0
	for _, op := range ops {
		if op.kind == 1 {
			all = append(all, op)
			nLogs++
		}
	}
	c.Nontrivial = len(gn) >= 3 && nLogs >= 2
	ref := zapcore.NewJSONEncoder(encCfg())
	sort.Slice(all, func(i, j int) bool { return all[i].seq < all[j].seq })
	for _, op := range all {
		if !op.done {
			c.Fail("C07: a log operation did not complete", "%s", op.msg)
			return
		}
		want := c7expect(op.expCtx)
		isSlog := w.nodes[op.node].sl != nil
		for li, lf := range w.leaves {
			var name string
			var got []jkv
			switch lf.kind {
			case 0, 1:
				line, n := c7findLine(lf.sink.Data, op.msg, lf.kind == 1)
				if n != 1 {
					c.Fail("C07: a log call did not produce exactly one line on a leaf", "%s: leaf %d holds it %d times", op.msg, li, n)
					return
				}
				var err error
				name, got, err = c7parse(line, lf.kind == 1, op.msg)
				if err != nil {
					c.Fail("C07: an emitted line does not parse", "%s leaf %d: %v: %q", op.msg, li, err, clipS(line))
					return
				}
			case 2:
				es := lf.logs.FilterMessage(op.msg).All()
				if len(es) != 1 {
					c.Fail("C07: a log call did not produce exactly one entry on an observer", "%s: %d entries", op.msg, len(es))
					return
				}
				name = es[0].LoggerName
				ctx := es[0].Context
				if kept, ok := op.obs[li]; ok {
					ctx = kept // as read right after the call (the entry itself was masked then)
				}
				buf, err := ref.EncodeEntry(zapcore.Entry{Message: "x"}, ctx)
				if err != nil {
					c.Fail("C07: harness: cannot encode observed context", "%v", err)
					return
				}
				obj, err := decodeOrdered(bytes.TrimSpace(buf.Bytes()))
				if err != nil {
					c.Fail("C07: the context recorded by an observer does not re-encode to a well-formed object", "%v", err)
					return
				}
				got = obj[2:] // level, msg
			}
			// a lazy field is fixed by its first observation
			for i := range op.expCtx {
				if lz := op.expCtx[i].lz; lz != nil && !lz.fixed {
					lz.val = lz.cands[0]
					if v, ok := c7findMut(got, op.expCtx[i].key); ok {
						for _, cv := range lz.cands {
							if cv == v {
								lz.val, lz.fixed = v, true
							}
						}
					}
				}
			}
			want = c7expect(op.expCtx)
			if name != op.expName {
				c.Fail("C07: an entry carries the wrong logger name", "%s through n%d (leaf %d): name %q, expected %q", op.msg, op.node, li, name, op.expName)
				return
			}
			if !c7match(got, want) && !(len(got) == 0 && len(want) == 0) {
				c.Fail("C07: an entry does not carry exactly the fields of its own derivation path followed by its call-site fields", "%s through n%d (slog=%v, leaf %d %s):\n  got      %s\n  expected %s", op.msg, op.node, isSlog, li, []string{"json", "console", "observer"}[lf.kind], jstr(got), jstr(want))
				return
			}
		}
	}
}

func c7findMut(v any, key string) (int, bool) {
	switch t := v.(type) {
	case []jkv:
		for _, e := range t {
			if e.k == key {
				if o, ok := e.v.([]jkv); ok && len(o) == 1 {
					if n, ok := o[0].v.(json.Number); ok {
						i, err := strconv.Atoi(string(n))
						return i, err == nil
					}
				}
				return 0, false
			}
			if i, ok := c7findMut(e.v, key); ok {
				return i, ok
			}
		}
	}
	return 0, false
}

func jstr(v []jkv) string {
	var b strings.Builder
	var wr func(x any)
	wr = func(x any) {
		switch t := x.(type) {
		case []jkv:
			b.WriteByte('{')
			for i, e := range t {
				if i > 0 {
					b.WriteByte(',')
				}
				fmt.Fprintf(&b, "%s:", e.k)
				wr(e.v)
			}
			b.WriteByte('}')
		default:
			fmt.Fprintf(&b, "%v", t)
		}
	}
	wr(v)
	return b.String()
}

// c7findLine returns the line whose message is msg.
func c7findLine(data []byte, msg string, console bool) (string, int) {
	n := 0
	found := ""
	for _, ln := range strings.Split(string(data), "\n") {
		if ln == "" {
			continue
		}
		hit := false
		if console {
			for _, col := range strings.Split(ln, "\t") {
				if col == msg {
					hit = true
				}
			}
		} else {
			hit = strings.Contains(ln, `"msg":"`+msg+`"`)
		}
		if hit {
			n++
			found = ln
		}
	}
	return found, n
}

// c7parse splits a line into logger name and the ordered context object.
func c7parse(line string, console bool, msg string) (string, []jkv, error) {
	if !console {
		obj, err := decodeOrdered([]byte(line))
		if err != nil {
			return "", nil, err
		}
		name := ""
		var rest []jkv
		for _, e := range obj {
			switch e.k {
			case "level", "msg":
			case "logger":
				name, _ = e.v.(string)
			default:
				rest = append(rest, e)
			}
		}
		if rest == nil {
			rest = []jkv{}
		}
		return name, rest, nil
	}
	cols := strings.Split(line, "\t")
	// level [name] msg [context]
	mi := -1
	for i, col := range cols {
		if col == msg {
			mi = i
		}
	}
	if mi < 1 || mi > 2 {
		return "", nil, fmt.Errorf("console columns: %q", cols)
	}
	name := ""
	if mi == 2 {
		name = cols[1]
	}
	rest := []jkv{}
	if len(cols) > mi+1 {
		ctx := strings.Join(cols[mi+1:], "\t")
		obj, err := decodeOrdered([]byte(ctx))
		if err != nil {
			return "", nil, fmt.Errorf("console context: %v", err)
		}
		rest = obj
	}
	return name, rest, nil
}
