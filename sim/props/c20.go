package props

import (
	"encoding/json"
	"errors"
	"flag"
	"fmt"
	"io"
	"net/http"
	"net/http/httptest"
	"net/url"
	"regexp"
	"strconv"
	"strings"
	"time"

	"github.com/anishathalye/porcupine"
	"go.uber.org/zap"
	"go.uber.org/zap/zapcore"
	"go.uber.org/zap/zaptest/observer"
	"gopkg.in/yaml.v3"

	"verif/zsim"
)

// C20 — level names and the level HTTP endpoint set exactly the requested level.

func init() {
	register(&Prop{
		ID:  "C20",
		Run: runC20,
		Rule: "one case = a history of <= 20 operations on one AtomicLevel shared by 1-3 client tasks and a live logger: GET; PUT with JSON or form encoding (body or query) naming a level text drawn from valid names in any case, aliases, the empty string, near-misses, numbers, nested JSON and arbitrary bytes, delivered through a reader that cuts the body into chunks and may fail or end early at a drawn offset; other methods and content types; textual sets (UnmarshalText, flag.Value.Set, JSON and YAML decoding into the shared level, zero-value targets); SetLevel/Level; Enabled queries of the logger; executed sequentially (exact register semantics) or concurrently with a yield before every atomic operation (porcupine linearizability check against a register model); " +
			"non-trivial = at least one rejected request or text and one accepted change, or at least 2 tasks; distinct = distinct hash of (operation list, scheduling decisions)",
		Real: []string{"zap.AtomicLevel (ServeHTTP, serveHTTP, decodePutRequest/URL/JSON, UnmarshalText, MarshalText, SetLevel, Level)", "zapcore.Level text forms (String, CapitalString, UnmarshalText, Set, ParseLevel), zap.LevelFlag", "net/http request parsing, encoding/json, gopkg.in/yaml.v3", "porcupine v1.3.0 (linearizability of the recorded register history)"},
		Stub: []string{"HTTP transport (httptest.ResponseRecorder, no sockets)", "request body reader (chunking, injected read error / early EOF)"},
	})
}

var c20flagN int

type faultyReader struct {
	data  []byte
	pos   int
	chunk int
	at    int   // offset at which the fault strikes (-1 never)
	err   error // io.EOF = early EOF
	fired *int
}

func (r *faultyReader) Read(p []byte) (int, error) {
	if r.at >= 0 && r.pos >= r.at {
		*r.fired++
		return 0, r.err
	}
	if r.pos >= len(r.data) {
		return 0, io.EOF
	}
	n := r.chunk
	if n > len(p) {
		n = len(p)
	}
	if r.pos+n > len(r.data) {
		n = len(r.data) - r.pos
	}
	if r.at >= 0 && r.pos+n > r.at {
		n = r.at - r.pos
	}
	copy(p, r.data[r.pos:r.pos+n])
	r.pos += n
	return n, nil
}

var c20names = map[string]zapcore.Level{"debug": zapcore.DebugLevel, "info": zapcore.InfoLevel, "warn": zapcore.WarnLevel, "error": zapcore.ErrorLevel, "dpanic": zapcore.DPanicLevel, "panic": zapcore.PanicLevel, "fatal": zapcore.FatalLevel}

// classify a level text by the reference name table: 1 valid (level l),
// 0 invalid, 2 not judged (the alias "warning", which the statement does not list).
func c20classify(text string) (int, zapcore.Level) {
	lower := strings.ToLower(text)
	if l, ok := c20names[lower]; ok {
		return 1, l
	}
	if lower == "warning" {
		return 2, zapcore.WarnLevel
	}
	return 0, 0
}

func c20text(g *zsim.Stream) string {
	valid := []string{"debug", "info", "warn", "error", "dpanic", "panic", "fatal"}
	switch g.Weighted(5, 3, 2, 1, 4, 2, 4) {
	case 6:
		// a valid name with one edit: every such string is a different text
		s := []byte(valid[g.Draw(7)])
		i := g.Draw(len(s))
		ch := "abdefgilnoprstuw s"[g.Draw(18)]
		switch g.Draw(6) {
		case 5:
			// one letter replaced by a non-ASCII character whose code point has
			// that letter (in either case) as its low byte
			rs := []rune(string(s))
			base := rune(rs[i])
			if g.Chance(2) {
				base -= 32
			}
			rs[i] = base + []rune{0x100, 0x200, 0x400, 0x1000, 0x10100}[g.Draw(5)]
			return string(rs)
		case 0:
			s = append(s, ch)
		case 1:
			s = append([]byte{ch}, s...)
		case 2:
			s = append(s[:i], s[i+1:]...)
		case 3:
			s = append(s[:i+1], s[i:]...)
		default:
			s[i] = ch
		}
		return string(s)
	case 0:
		return valid[g.Draw(7)]
	case 1:
		return strings.ToUpper(valid[g.Draw(7)])
	case 2:
		s := []byte(valid[g.Draw(7)])
		for i := range s {
			if g.Chance(2) {
				s[i] -= 32
			}
		}
		return string(s)
	case 3:
		return "warning"
	case 4:
		return pick(g, "", " info", "info ", "inf", "debugg", "Level(1)", "0", "-1", "warn\n", "err", "trace", "information", "INFO\x00", "ｉｎｆｏ", "fatal!", "d e b u g")
	}
	if g.Chance(3) {
		// what String() and CapitalString() print for levels without a name,
		// around both ends of the range: not names
		return fmt.Sprintf(pick(g, "Level(%d)", "LEVEL(%d)", "level(%d)"), g.Draw(14)-4)
	}
	if g.Chance(4) {
		// texts that become a name only when they are unescaped once more than
		// the encoding asks for (sent form-encoded they arrive as %2564ebug ...)
		return pick(g, "%64ebug", "%45RROR", "fata%6c", "inf%6F", "%77arn", "%2564ebug")
	}
	if g.Chance(3) {
		// letters that only an upper-case fold maps onto ASCII: no spelling of a name
		return pick(g, "ınfo", "ıNFO", "panıc", "PANıC", "dpanıc", "DPANıC", "ſatal")
	}
	return pick(g, "LEVEL(3)", "1", "true", "null", "{}", "İnfo", "wArNiNg ")
}

type c20op struct {
	kind   int
	text   string
	text2  string // first value when the body carries the level key twice
	form   bool   // form encoding (else JSON)
	query  bool   // level in the URL query instead of the body
	method string
	ctype  string
	chunk  int
	fault  int // 0 none, 1 read error, 2 early EOF
	at     int
	level  zapcore.Level
	zero   bool // textual set into a zero-value AtomicLevel instead of the shared one
	task   int
	long   int // > 0: the level pair of a PUT body lies at about this offset behind padding
	delta  int
	strad  bool // form bodies: a valid name ends exactly at offset long and is followed by more text
	// respFail: the client has gone away - every Write of the response fails
	// (sequential histories, plainly well-formed requests only)
	respFail bool
}

const (
	c20Get = iota
	c20Put
	c20OtherMethod
	c20Unmarshal
	c20FlagSet
	c20JSONDecode
	c20YAMLDecode
	c20SetLevel
	c20Level
	c20Enabled
	c20RoundTrip
	c20nKinds
)

// c20drawLevel: mostly the seven named levels; one time in six a level without
// a name (SetLevel takes any: FatalLevel+1 to silence a logger, levels below
// Debug for verbosity), which the handler must report like any other.
func c20drawLevel(g *zsim.Stream) zapcore.Level {
	if g.Chance(6) {
		return pick(g, zapcore.Level(-128), zapcore.Level(-3), zapcore.Level(-2), zapcore.Level(6), zapcore.Level(7), zapcore.Level(100), zapcore.Level(127))
	}
	return zapcore.Level(g.Draw(7) - 1)
}

// c20deadWriter: a ResponseWriter whose client has gone away.
type c20deadWriter struct{ http.ResponseWriter }

func (c20deadWriter) Write([]byte) (int, error) {
	return 0, errors.New("write: broken pipe (injected)")
}

// c20plain: letters and digits only (nothing JSON would have to escape anyway).
func c20plain(s string) bool {
	if s == "" {
		return false
	}
	for _, ch := range []byte(s) {
		if !(ch >= 'a' && ch <= 'z' || ch >= 'A' && ch <= 'Z' || ch >= '0' && ch <= '9') {
			return false
		}
	}
	return true
}

var c20number = regexp.MustCompile(`-?[0-9]+`)

var c20kindNames = [...]string{"GET", "PUT", "other-method", "UnmarshalText", "flag.Set", "json-decode", "yaml-decode", "SetLevel", "Level", "Enabled", "round-trip"}

type regIn struct {
	write bool
	v     int
	query int // for enabled: level asked (write=false, isEnabled=true)
	enab  bool
}
type regOut struct {
	v  int
	ok bool
}

var c20model = porcupine.Model{
	Init: func() interface{} { return 0 },
	Step: func(state, input, output interface{}) (bool, interface{}) {
		in, out, st := input.(regIn), output.(regOut), state.(int)
		switch {
		case in.write:
			return true, in.v
		case in.enab:
			return (in.query >= st) == out.ok, st
		}
		return out.v == st, st
	},
	DescribeOperation: func(input, output interface{}) string {
		in, out := input.(regIn), output.(regOut)
		switch {
		case in.write:
			return fmt.Sprintf("set(%d)", in.v)
		case in.enab:
			return fmt.Sprintf("enabled(%d)=%v", in.query, out.ok)
		}
		return fmt.Sprintf("read=%d", out.v)
	},
}

func runC20(c *Ctx) {
	g, f, r := c.G, c.F, c.R
	initial := c20drawLevel(g)
	lvl := zap.NewAtomicLevelAt(initial)
	core, _ := observer.New(lvl)
	lg := zap.New(core)
	nTasks := 1
	if g.Chance(3) {
		nTasks = 2 + g.Draw(2)
	}
	maxOps := 10
	if c.Tier == "thorough" {
		maxOps = 20
	}
	if nTasks > 1 {
		maxOps = 6
	}
	var ops []*c20op
	n := 1 + g.Draw(maxOps)
	if nTasks > 1 {
		n = nTasks + g.Draw(maxOps)
	}
	for i := 0; i < n; i++ {
		op := &c20op{task: g.Draw(nTasks)}
		op.kind = g.Weighted(2, 6, 1, 2, 1, 1, 1, 2, 1, 2, 1)
		op.text = c20text(g)
		op.text2 = c20text(g)
		op.form = g.Chance(2)
		op.query = g.Chance(3)
		op.method = pick(g, "POST", "DELETE", "PATCH", "HEAD", "OPTIONS", "put", "", "Put", "pUT", "get", "Get", "TRACE", "CONNECT", "PUTT", "GE")
		op.ctype = pick(g, "", "application/json", "text/plain", "application/x-www-form-urlencoded; charset=utf-8", "APPLICATION/JSON")
		op.chunk = 1 + g.Draw(16)
		if f.Chance(4) {
			op.fault = 1 + f.Draw(2)
			op.at = f.Draw(24)
			if nTasks > 1 && op.fault == 2 {
				op.fault = 1 // a truncated body may name another level: sequential runs only
			}
		}
		op.level = c20drawLevel(g)
		op.zero = g.Chance(6)
		op.respFail = f.Chance(8)
		if op.kind == c20Put && g.Chance(8) {
			// a long body: the level pair sits at about a power-of-two offset
			// (buffer sizes, read limits), either wholly behind it or with a
			// valid name ending exactly there and more text following
			op.long = []int{256, 512, 1024, 4096, 65536, 1 << 20}[g.Weighted(3, 3, 3, 2, 1, 1)]
			op.delta = g.Draw(14) - 10
			if op.form && !op.query && g.Chance(3) {
				op.strad = true
				op.text = []string{"debug", "info", "warn", "error", "dpanic", "panic", "fatal"}[g.Draw(7)] + pick(g, "junk", "x", "!", "0")
			}
		}
		ops = append(ops, op)
		c.MixState(uint64(op.kind)<<16 | uint64(len(op.text))<<8 | uint64(op.fault)<<4 | b2u(op.form)<<1 | b2u(op.query))
	}
	var od []string
	for _, op := range ops {
		s := fmt.Sprintf("t%d:%s", op.task, c20kindNames[op.kind])
		switch op.kind {
		case c20Put:
			s += fmt.Sprintf("(%q form=%v query=%v chunk=%d fault=%d@%d)", op.text, op.form, op.query, op.chunk, op.fault, op.at)
		case c20Unmarshal, c20FlagSet, c20JSONDecode, c20YAMLDecode:
			s += fmt.Sprintf("(%q zero=%v)", op.text, op.zero)
		case c20SetLevel, c20Enabled:
			s += fmt.Sprintf("(%d)", op.level)
		}
		od = append(od, s)
	}
	c.Describe("initial=%d tasks=%d policy=%s", initial, nTasks, r.Policy)
	c.Describe("%s", strings.Join(od, " "))

	// sequential register model
	reg := initial
	accepted, rejected := 0, 0
	var ev int64
	var hist []porcupine.Operation
	record := func(task int, in regIn, out regOut, inv, ret int64) {
		hist = append(hist, porcupine.Operation{ClientId: task, Input: in, Call: inv, Output: out, Return: ret})
	}
	readsFired := 0

	exec := func(op *c20op) bool {
		seq := nTasks == 1
		ev++
		inv := ev
		switch op.kind {
		case c20Get, c20Put, c20OtherMethod:
			method := "GET"
			dup := false
			trailing := false
			firstDoc := -1
			var body string
			target := "/log/level"
			ctype := ""
			if op.kind == c20Put {
				method = "PUT"
				if op.form {
					ctype = "application/x-www-form-urlencoded"
					if op.query {
						target += "?level=" + url.QueryEscape(op.text)
					} else {
						body = "level=" + url.QueryEscape(op.text)
						if op.strad {
							// "pad=aaa&level=" + name ends exactly at offset op.long
							name := op.text[:len(op.text)-1]
							for _, sfx := range []string{"junk", "x", "!", "0"} {
								if strings.HasSuffix(op.text, sfx) {
									name = strings.TrimSuffix(op.text, sfx)
								}
							}
							if n := op.long - len("pad=&level=") - len(name); n > 0 {
								body = "pad=" + strings.Repeat("a", n) + "&" + body
							}
						} else if op.long > 0 {
							if n := op.long - len("pad=&") + op.delta; n > 0 {
								body = "pad=" + strings.Repeat("a", n) + "&" + body
							}
						}
					}
				} else {
					ctype = op.ctype
					if strings.HasPrefix(ctype, "application/x-www-form-urlencoded") {
						ctype = "application/json"
					}
					js, _ := json.Marshal(map[string]string{"level": op.text})
					body = string(js)
					if op.chunk%5 == 2 && c20plain(op.text) {
						// the same JSON document, spelled with \uXXXX escapes for some
						// of the letters (every third, or all of them)
						var b strings.Builder
						for i, ch := range []byte(op.text) {
							if i%3 == op.chunk%3 || op.chunk%2 == 0 {
								fmt.Fprintf(&b, "\\u%04x", ch)
							} else {
								b.WriteByte(ch)
							}
						}
						body = `{"level":"` + b.String() + `"}`
						c.R.Probe("level text spelled with JSON escapes")
					}
					if op.chunk%4 == 0 && !op.form && seq {
						// the level key twice: which value wins is the decoder's
						// business, but a rejected request must still change nothing
						js1, _ := json.Marshal(op.text2)
						js2, _ := json.Marshal(op.text)
						body = fmt.Sprintf(`{"level":%s,"level":%s}`, js1, js2)
						dup = true
					}
					if op.chunk%7 == 3 && !dup {
						// more than one read's worth of body: a first document,
						// then padding and further documents the handler must ignore
						tail := strings.Repeat(`{"level":"`+op.text2+`"} `, 40)
						firstDoc = len(body)
						body = body + strings.Repeat(" ", 500) + tail
						trailing = true
					}
					if op.long > 0 && !dup && !trailing {
						if n := op.long - len(`{"pad":"",`) + op.delta; n > 0 {
							body = `{"pad":"` + strings.Repeat("a", n) + `",` + body[1:]
						}
					}
					switch op.text {
					case "null":
						body = `{"level":null}`
					case "{}":
						body = `{}`
					case "1":
						body = `{"level":1}`
					case "true":
						// no JSON value at all: junk, nothing, or white space only
						body = [...]string{`not json at all`, ``, " \n\t "}[op.chunk%3]
						if body != `not json at all` {
							c.R.Probe("JSON PUT with an empty or blank body")
						}
					}
				}
			}
			if op.kind == c20OtherMethod {
				method = op.method
				if method == "" {
					method = "POST"
				}
				// method tokens are case-sensitive: "put" and "Get" are other methods
				body = `{"level":"debug"}`
			}
			fr := &faultyReader{data: []byte(body), chunk: op.chunk, at: -1, fired: &readsFired}
			if len(body) > 2048 {
				fr.chunk = op.chunk * 512
			}
			if op.kind == c20Put && op.fault != 0 && !op.query {
				fr.at = op.at
				fr.err = errors.New("injected body read error")
				if op.fault == 2 {
					fr.err = io.EOF
				}
			}
			req, err := http.NewRequest(method, target, fr)
			if err != nil {
				return true
			}
			if ctype != "" {
				req.Header.Set("Content-Type", ctype)
			}
			if op.kind != c20Put && (op.chunk+len(method)+len(op.text))%3 == 0 {
				// what a request is, is its method: headers by which proxies and
				// frameworks tunnel one method inside another change nothing
				req.Header.Set([]string{"X-HTTP-Method-Override", "X-Method-Override", "X-HTTP-Method"}[op.chunk%3], []string{"PUT", "GET", "put"}[(op.chunk/3+len(method))%3])
				c.R.Probe("request with a method-override header")
			}
			rec := httptest.NewRecorder()
			before := reg
			plainReq := (op.form || ctype == "application/json" || ctype == "") && !trailing && !dup && fr.at < 0 && op.long == 0
			if seq && op.respFail && plainReq {
				// The response cannot be delivered. What the request does to the
				// level does not depend on that: a PUT naming a valid level sets it,
				// everything else leaves it alone. Status and body are not judged.
				c.Fault("response-write-fails")
				lvl.ServeHTTP(c20deadWriter{rec}, req)
				ev++
				wantLvl := before
				if op.kind == c20Put {
					kind, named := c20classify(op.text)
					jsonOdd := !op.form && (op.text == "null" || op.text == "{}" || op.text == "1" || op.text == "true")
					switch {
					case jsonOdd:
					case !op.form && op.text == "":
						wantLvl = zapcore.InfoLevel
					case kind == 1:
						wantLvl = named
					case kind == 2:
						reg = lvl.Level() // not judged
						return true
					}
				}
				if got := lvl.Level(); got != wantLvl {
					c.Fail("C20: what a request does to the level depends on whether its response could be delivered", "%s %s body %q with a response writer whose Write fails: level %s -> %s, expected %s", method, target, clipS(body), before, got, wantLvl)
					return false
				}
				reg = wantLvl
				return true
			}
			lvl.ServeHTTP(rec, req)
			ev++
			ret := ev
			status := rec.Code
			var resp struct {
				Level *string `json:"level"`
				Error string  `json:"error"`
			}
			jerr := json.Unmarshal(rec.Body.Bytes(), &resp)
			// truncated: the body was cut short; mayReject: additionally, an error
			// instead of the final EOF (the JSON value is complete, the form is not)
			truncated := fr.at >= 0 && fr.at < len(body)
			mayReject := truncated || (fr.at >= 0 && op.fault == 1 && fr.at == len(body))
			if trailing && fr.at >= firstDoc {
				// the first document arrived whole; what happens to the ignored
				// rest of the body is of no consequence
				truncated = false
			}
			switch {
			case status == 200:
				if jerr != nil || resp.Level == nil {
					c.Fail("C20: a 200 response does not carry the level as JSON", "%s %s: body %q", method, target, rec.Body.String())
					return false
				}
				cls, named := c20classify(*resp.Level)
				if cls != 1 {
					// a level without a name (set through SetLevel) is reported
					// by its number, in whatever notation
					if m := c20number.FindString(*resp.Level); m != "" {
						if n, err := strconv.Atoi(m); err == nil && n >= -128 && n <= 127 && (n < int(zapcore.DebugLevel) || n > int(zapcore.FatalLevel)) {
							c.R.Probe("a response reported a level without a name")
							cls, named = 1, zapcore.Level(n)
						}
					}
				}
				if cls != 1 {
					c.Fail("C20: the response names something that is not a level", "%q", *resp.Level)
					return false
				}
				if op.kind == c20OtherMethod {
					c.Fail("C20: a method other than GET and PUT was answered with 200", "%s", method)
					return false
				}
				if op.kind == c20Put && truncated && op.fault == 1 {
					c.Fail("C20: a PUT whose body could not be read completely changed the level", "PUT body %q, read error at offset %d: 200 %s", clipS(body), op.at, rec.Body.String())
					return false
				}
				if op.kind == c20Put && truncated {
					// the body ended early: what was delivered may itself name a
					// level; only consistency is judged
					accepted++
					if got := lvl.Level(); got != named {
						c.Fail("C20: the response of a PUT does not name the level in force", "truncated PUT answered %q, level is %s", *resp.Level, got)
						return false
					}
					reg = named
				} else if op.kind == c20Put && dup {
					// duplicate keys: the level in force must be the one the
					// response names, and one of the two that were named
					k1, l1 := c20classify(op.text2)
					k2, l2 := c20classify(op.text)
					if op.text == "" {
						k2, l2 = 1, zapcore.InfoLevel
					}
					if op.text2 == "" {
						k1, l1 = 1, zapcore.InfoLevel
					}
					if !((k1 != 0 && named == l1) || (k2 != 0 && named == l2)) {
						c.Fail("C20: a PUT set a level other than the one it named", "PUT %s answered %q", clipS(body), *resp.Level)
						return false
					}
					accepted++
					if seq {
						if got := lvl.Level(); got != named {
							c.Fail("C20: the response of a PUT does not name the level in force", "PUT %s answered %q, level is %s", clipS(body), *resp.Level, got)
							return false
						}
						reg = named
					} else {
						record(op.task, regIn{write: true, v: int(named)}, regOut{}, inv, ret)
						record(op.task, regIn{}, regOut{v: int(named)}, inv, ret)
					}
				} else if op.kind == c20Put {
					kind, want := c20classify(op.text)
					if !op.form && (op.text == "null" || op.text == "{}" || op.text == "1" || op.text == "true") {
						kind = 0
					}
					emptyJSON := !op.form && op.text == ""
					if emptyJSON {
						kind, want = 1, zapcore.InfoLevel // the empty string reads as info
					}
					if kind == 0 {
						c.Fail("C20: a PUT that names no valid level was accepted", "PUT %s body %q (form=%v): 200 %s", target, clipS(body), op.form, rec.Body.String())
						return false
					}
					accepted++
					if seq {
						if got := lvl.Level(); got != want {
							c.Fail("C20: a PUT set a level other than the one it named", "PUT %q: level is now %s", op.text, got)
							return false
						}
						if named != want {
							c.Fail("C20: the response of a PUT does not name the level in force", "PUT %q answered %q", op.text, *resp.Level)
							return false
						}
						reg = want
					} else {
						record(op.task, regIn{write: true, v: int(want)}, regOut{}, inv, ret)
						record(op.task, regIn{}, regOut{v: int(named)}, inv, ret)
					}
				} else { // GET
					if seq {
						if named != reg {
							c.Fail("C20: GET does not report the level in force", "level %s, response %q", reg, *resp.Level)
							return false
						}
					} else {
						record(op.task, regIn{}, regOut{v: int(named)}, inv, ret)
					}
				}
			case status >= 400 && status < 500:
				rejected++
				if op.kind == c20Get {
					c.Fail("C20: GET was answered with an error status", "%d %s", status, rec.Body.String())
					return false
				}
				// "must be accepted" is demanded only of plainly well-formed requests:
				// the exact form content type, or JSON declared as JSON (or undeclared)
				plain := (op.form || ctype == "application/json" || ctype == "") && !trailing
				if op.kind == c20Put && !mayReject && !dup && plain {
					kind, _ := c20classify(op.text)
					jsonOdd := !op.form && (op.text == "null" || op.text == "{}" || op.text == "1" || op.text == "true")
					if kind == 1 && !jsonOdd {
						c.Fail("C20: a PUT that names a valid level was rejected", "PUT %s body %q (form=%v, content type %q): %d %s", target, clipS(body), op.form, ctype, status, rec.Body.String())
						return false
					}
				}
				if seq && lvl.Level() != before {
					c.Fail("C20: a rejected request changed the level", "%s %s body %q: %d, level %s -> %s", method, target, clipS(body), status, before, lvl.Level())
					return false
				}
			default:
				c.Fail("C20: a request was answered with a status that is neither 200 nor 4xx", "%s %s body %q (fault %d@%d): %d %s", method, target, clipS(body), op.fault, op.at, status, rec.Body.String())
				return false
			}
		case c20Unmarshal, c20FlagSet, c20JSONDecode, c20YAMLDecode:
			target := lvl
			if op.zero {
				target = zap.AtomicLevel{}
			}
			var err error
			switch op.kind {
			case c20Unmarshal:
				err = target.UnmarshalText([]byte(op.text))
			case c20FlagSet:
				// flag parsing goes through zapcore.Level's flag.Value
				fs := flag.NewFlagSet("x", flag.ContinueOnError)
				fs.SetOutput(io.Discard)
				var fl zapcore.Level = zapcore.Level(42)
				fs.Var(&fl, "level", "")
				err = fs.Parse([]string{"-level=" + op.text})
				if op.chunk%5 == 0 {
					// the package-level flag helper (registers on flag.CommandLine)
					c20flagN++
					name := fmt.Sprintf("zsim-level-%d", c20flagN)
					lp := zap.LevelFlag(name, zapcore.Level(42), "")
					err = flag.Set(name, op.text)
					fl = *lp
				}
				if err == nil {
					lvl2 := target
					if op.zero {
						// only the parsing is of interest for a zero target
						if cls, want := c20classify(op.text); (cls == 1 && fl != want) || (op.text == "" && fl != zapcore.InfoLevel) {
							c.Fail("C20: flag parsing produced a different level", "%q -> %s", op.text, fl)
							return false
						}
						return true
					}
					lvl2.SetLevel(fl)
				} else if fl != zapcore.Level(42) {
					c.Fail("C20: rejected text modified its target", "flag value became %d after %q was refused", fl, op.text)
					return false
				}
			case c20JSONDecode:
				js, _ := json.Marshal(op.text)
				err = json.Unmarshal(js, &target)
			case c20YAMLDecode:
				ys, _ := yaml.Marshal(op.text)
				err = yaml.Unmarshal(ys, &target)
			}
			ev++
			ret := ev
			cls, want := c20classify(op.text)
			if op.text == "" {
				cls, want = 1, zapcore.InfoLevel
			}
			if cls == 1 && err != nil {
				c.Fail("C20: a valid level text was rejected", "%s(%q): %v", c20kindNames[op.kind], op.text, err)
				return false
			}
			if cls == 0 && err == nil {
				c.Fail("C20: text that names no level was accepted", "%s(%q)", c20kindNames[op.kind], op.text)
				return false
			}
			if op.zero {
				if err != nil && target != (zap.AtomicLevel{}) && op.kind != c20FlagSet {
					sig := "C20: rejected text modified its target: a zero AtomicLevel became an allocated one"
					if !c.known(sig) {
						c.Fail(sig, "%s(%q) on a zero AtomicLevel returned %v and left it set to %s", c20kindNames[op.kind], op.text, err, target.Level())
						return false
					}
				}
				if err == nil && target.Level() != want && cls == 1 {
					c.Fail("C20: parsing a level text produced a different level", "%s(%q) -> %s", c20kindNames[op.kind], op.text, target.Level())
					return false
				}
				return true
			}
			if err != nil {
				rejected++
				if seq && lvl.Level() != reg {
					c.Fail("C20: rejected text modified its target", "%s(%q): level %s -> %s", c20kindNames[op.kind], op.text, reg, lvl.Level())
					return false
				}
			} else {
				accepted++
				if cls == 2 {
					want = lvl.Level() // alias: whatever it was read as (sequential) is the new value
					if !seq {
						want = zapcore.WarnLevel
					}
				}
				if seq {
					if lvl.Level() != want {
						c.Fail("C20: a textual set produced a different level", "%s(%q): level is %s", c20kindNames[op.kind], op.text, lvl.Level())
						return false
					}
					reg = want
				} else {
					record(op.task, regIn{write: true, v: int(want)}, regOut{}, inv, ret)
				}
			}
		case c20SetLevel:
			lvl.SetLevel(op.level)
			ev++
			if seq {
				reg = op.level
			} else {
				record(op.task, regIn{write: true, v: int(op.level)}, regOut{}, inv, ev)
			}
		case c20Level:
			got := lvl.Level()
			ev++
			if seq {
				if got != reg {
					c.Fail("C20: Level() does not return the level in force", "%s, expected %s", got, reg)
					return false
				}
			} else {
				record(op.task, regIn{}, regOut{v: int(got)}, inv, ev)
			}
		case c20Enabled:
			got := lg.Core().Enabled(op.level)
			ce := lg.Check(op.level, "probe") != nil
			ev++
			if seq {
				if got != (op.level >= reg) || (op.level < zapcore.DPanicLevel && ce != got) {
					c.Fail("C20: a live logger does not follow the level in force", "level %s: Enabled(%s)=%v Check!=nil is %v", reg, op.level, got, ce)
					return false
				}
			} else {
				record(op.task, regIn{enab: true, query: int(op.level)}, regOut{ok: got}, inv, ev)
			}
		case c20RoundTrip:
			l := op.level
			if l < zapcore.DebugLevel || l > zapcore.FatalLevel {
				// round trips are promised for the valid (named) levels
				l = zapcore.Level(int(op.level)&7%7 - 1)
			}
			for form, text := range map[string]string{"String": l.String(), "CapitalString": l.CapitalString()} {
				var back zapcore.Level = 42
				if err := back.UnmarshalText([]byte(text)); err != nil || back != l {
					c.Fail("C20: a valid level does not round-trip through its text form", "%s via %s %q: %v %s", l, form, text, err, back)
					return false
				}
				if p, err := zapcore.ParseLevel(text); err != nil || p != l {
					c.Fail("C20: ParseLevel does not invert the text form", "%q: %v %s", text, err, p)
					return false
				}
			}
			al := zap.NewAtomicLevelAt(l)
			mt, _ := al.MarshalText()
			js, _ := json.Marshal(al)
			ys, _ := yaml.Marshal(al)
			var a1, a2, a3 zap.AtomicLevel
			e1 := a1.UnmarshalText(mt)
			// the caller owns what MarshalText returned: it appends to it and
			// overwrites it (as a caller building a longer message in place would);
			// no later text form may be affected
			if lt, err := l.MarshalText(); err == nil {
				lt = append(lt, " (verbose)"...)
				for i := range lt {
					lt[i] = '#'
				}
			}
			mt = append(mt, " and more"...)
			for i := range mt {
				mt[i] = '#'
			}
			e2 := json.Unmarshal(js, &a2)
			e3 := yaml.Unmarshal(ys, &a3)
			if e1 != nil || e2 != nil || e3 != nil || a1.Level() != l || a2.Level() != l || a3.Level() != l {
				c.Fail("C20: an AtomicLevel does not round-trip through text, JSON and YAML", "%s: text %q %v, json %s %v, yaml %q %v", l, mt, e1, js, e2, ys, e3)
				return false
			}
			if pa, err := zap.ParseAtomicLevel(strings.ToUpper(l.String())); err != nil || pa.Level() != l {
				c.Fail("C20: ParseAtomicLevel does not accept the capital name", "%s: %v", l, err)
				return false
			}
			// the drawn text through the parsing constructors and the plain
			// Level's own text, JSON and flag interfaces: accepted iff valid
			// (or empty = info), and a refused text leaves the target alone
			kind, want := c20classify(op.text)
			if op.text == "" {
				kind, want = 1, zapcore.InfoLevel
			}
			if kind != 2 {
				pl, e1 := zapcore.ParseLevel(op.text)
				pa, e2 := zap.ParseAtomicLevel(op.text)
				var lv zapcore.Level = 42
				e3 := lv.Set(op.text)
				var lj zapcore.Level = 42
				js, _ := json.Marshal(op.text)
				e4 := json.Unmarshal(js, &lj)
				if kind == 1 {
					if e1 != nil || e2 != nil || e3 != nil || e4 != nil || pl != want || pa.Level() != want || lv != want || lj != want || lv.Get() != interface{}(want) {
						c.Fail("C20: a valid level text was refused or read as another level", "%q: ParseLevel (%s, %v), ParseAtomicLevel %v, Level.Set (%s, %v), JSON (%s, %v)", op.text, pl, e1, e2, lv, e3, lj, e4)
						return false
					}
				} else {
					if e1 == nil || e2 == nil || e3 == nil || e4 == nil {
						c.Fail("C20: a text that names no level was accepted", "%q: ParseLevel %v, ParseAtomicLevel %v, Level.Set %v, JSON %v", op.text, e1, e2, e3, e4)
						return false
					}
					if lv != 42 || lj != 42 {
						c.Fail("C20: rejected text modified its target", "Level became %d / %d after %q was refused", lv, lj, op.text)
						return false
					}
				}
			}
			// a nil *Level is refused, not dereferenced
			var np *zapcore.Level
			if err := np.UnmarshalText([]byte(l.String())); err == nil {
				c.Fail("C20: UnmarshalText on a nil *Level reported success", "%s", l)
				return false
			}
		}
		return true
	}

	for t := 0; t < nTasks; t++ {
		t := t
		r.Go(fmt.Sprintf("t%d", t), func() {
			for _, op := range ops {
				if op.task != t {
					continue
				}
				if !exec(op) {
					return
				}
				zsim.Yield(zsim.KOp, nil)
			}
		})
	}
	c.Nontrivial = nTasks >= 2
	c.Sim()
	if accepted > 0 && rejected > 0 {
		c.Nontrivial = true
	}
	if readsFired > 0 {
		c.Faults["body-read-fault"] += readsFired
	}
	if nTasks > 1 && len(hist) > 0 {
		// the register starts at `initial`: prepend the initial write
		all := append([]porcupine.Operation{{ClientId: nTasks, Input: regIn{write: true, v: int(initial)}, Call: -2, Output: regOut{}, Return: -1}}, hist...)
		res := porcupine.CheckOperationsTimeout(c20model, all, 5*time.Second)
		switch res {
		case porcupine.Illegal:
			var hs []string
			for _, o := range all {
				hs = append(hs, fmt.Sprintf("c%d[%d,%d]%s", o.ClientId, o.Call, o.Return, c20model.DescribeOperation(o.Input, o.Output)))
			}
			c.Fail("C20: the recorded history of level reads and writes is not linearizable as a single register", "history: %s", strings.Join(hs, " "))
		case porcupine.Unknown:
			r.Probe("porcupine timed out (inconclusive, not reported)")
		default:
			r.Probe("concurrent history checked with porcupine: linearizable")
		}
	}
}
