package props

import (
	"fmt"
	"net/url"
	"strings"
	"time"

	"go.uber.org/zap"
	"go.uber.org/zap/zapcore"

	"verif/zsim"
)

// C11, member "built": the sampler as Config.Build constructs it from
// Config.Sampling (tick of one second, Initial, Thereafter, Hook), driven
// through a real Logger whose entry timestamps come from the simulated clock.
func runC11built(c *Ctx) {
	g, r := c.G, c.R
	N := pick(g, 0, 1, 2, 3, 5, 100)
	M := pick(g, 0, 1, 2, 3, 5, 100)
	sink := zsim.NewSimSink(r, "out", 1, 1)
	table := map[string]func(u *url.URL) (zap.Sink, error){"c11": func(*url.URL) (zap.Sink, error) { return sink, nil }}
	useSimScheme(table)
	epoch := drawEpoch(g)
	if epoch.Unix() < 1 {
		epoch = time.Unix(86400+epoch.Unix()*-1, 0).UTC()
	}
	clk := zsim.NewSimClock(r, epoch)
	hookCalls, hookSampled := 0, 0
	cfg := zap.NewProductionConfig()
	cfg.EncoderConfig = encCfg()
	cfg.DisableCaller, cfg.DisableStacktrace = true, true
	cfg.OutputPaths, cfg.ErrorOutputPaths = []string{"zsim://c11/out"}, nil
	lvl := pick(g, zapcore.DebugLevel, zapcore.InfoLevel, zapcore.WarnLevel)
	cfg.Level = zap.NewAtomicLevelAt(lvl)
	cfg.Sampling = &zap.SamplingConfig{Initial: N, Thereafter: M, Hook: func(e zapcore.Entry, d zapcore.SamplingDecision) {
		hookCalls++
		if d&zapcore.LogSampled != 0 {
			hookSampled++
		}
	}}
	lg, err := cfg.Build(zap.WithClock(clk))
	if err != nil {
		c.Fail("C11: Config.Build with Sampling failed", "%v", err)
		return
	}
	tick := time.Second // what Config.Build documents for its sampler
	type ent struct {
		lvl zapcore.Level
		msg int
		adv time.Duration
	}
	n := 4 + g.Draw(30)
	var es []ent
	for i := 0; i < n; i++ {
		e := ent{lvl: []zapcore.Level{zapcore.DebugLevel, zapcore.InfoLevel, zapcore.InfoLevel, zapcore.WarnLevel, zapcore.ErrorLevel}[g.Draw(5)], msg: g.Draw(2)}
		switch g.Weighted(6, 1, 1, 1, 1) {
		case 1:
			e.adv = tick - 1
		case 2:
			e.adv = tick
		case 3:
			e.adv = time.Duration(1 + g.Draw(int(tick/2)))
		case 4:
			e.adv = 3 * tick
		}
		es = append(es, e)
	}
	c.Describe("member=built-by-Config.Build N=%d M=%d level>=%s policy=%s", N, M, lvl, r.Policy)
	var sd []string
	for _, e := range es {
		sd = append(sd, fmt.Sprintf("(+%v,%s,m%d)", e.adv, e.lvl, e.msg))
	}
	c.Describe("%s", strings.Join(sd, " "))
	type key struct {
		lvl zapcore.Level
		msg int
	}
	type win struct {
		end   int64
		count uint64
	}
	model := map[key]*win{}
	admitted, dropped := 0, 0
	r.Go("t0", func() {
		for i, e := range es {
			clk.Advance(e.adv)
			h0, s0, w0 := hookCalls, hookSampled, sink.Writes
			lg.Log(e.lvl, c11msgs[e.msg], zap.Int("i", i))
			enabled := e.lvl >= lvl
			if !enabled {
				if hookCalls != h0 || sink.Writes != w0 {
					c.Fail("C11: an entry at a disabled level caused hook or core activity", "built sampler: entry %d at %s: hook calls %d, sink writes %d", i, e.lvl, hookCalls-h0, sink.Writes-w0)
					return
				}
				continue
			}
			k := key{e.lvl, e.msg}
			m := model[k]
			if m == nil {
				m = &win{}
				model[k] = m
			}
			tn := clk.Peek().UnixNano()
			if tn >= m.end {
				m.end, m.count = tn+int64(tick), 1
			} else {
				m.count++
			}
			want := c11admit(m.count, uint64(N), uint64(M))
			got := sink.Writes-w0 == 1
			if hookCalls-h0 != 1 || (hookSampled-s0 == 1) != got {
				c.Fail("C11: the decision hook was not called exactly once with the decision applied", "built sampler: entry %d: hook calls %d (sampled %d), written %v", i, hookCalls-h0, hookSampled-s0, got)
				return
			}
			if got != want {
				c.Fail("C11: a sampler built by Config.Build does not admit the first Initial then every Thereafter-th entry per second", "entry %d (%s, %q, t=+%v): %d-th of its key in the current one-second window, Initial=%d Thereafter=%d: expected admitted=%v, got %v", i, e.lvl, c11msgs[e.msg], clk.Peek().Sub(epoch), m.count, N, M, want, got)
				return
			}
			if got {
				admitted++
			} else {
				dropped++
			}
			c.MixState(uint64(e.lvl+2)<<8 | uint64(e.msg)<<4 | b2u(got))
			zsim.Yield(zsim.KOp, nil)
		}
	})
	c.Sim()
	c.Nontrivial = admitted > 0 && dropped > 0
}
