package props

import (
	"bytes"
	"errors"
	"fmt"
	"io"
	"net/url"
	"os"
	"reflect"
	"strings"
	"sync"
	"syscall"
	"time"
	"unsafe"

	"go.uber.org/zap"
	"go.uber.org/zap/zapcore"
	"go.uber.org/zap/zapio"
	"go.uber.org/zap/zaptest"
	"go.uber.org/zap/zaptest/observer"

	"verif/zsim"
)

// C13 — zap's writers and WriteSyncer combinators honour the io.Writer contract.

func init() {
	register(&Prop{
		ID:  "C13",
		Run: runC13,
		Rule: "one case is one of four members: (multi) a NewMultiWriteSyncer over 2-4 scripted sinks, where for 2-3 sinks ALL per-sink outcome vectors {full, short, zero count} x {nil, error} for Write and {nil, error} for Sync are enumerated in the run and for 4 sinks 60 vectors are drawn; (lock) 2-3 tasks mixing Write and Sync through Lock(sink) with scripted per-call outcomes and mid-write yields under a seeded schedule, plus Lock(Lock(x)) and AddSync identities; (writers) zapio.Writer, the std-log bridge writer, zaptest.TestingWriter and BufferedWriteSyncer fed generated payload sequences; (buffered-faulty) BufferedWriteSyncer over a sink with a scripted fault plan; " +
			"non-trivial = at least one injected sink fault fired or at least 2 tasks; distinct = distinct hash of (member, scheduling decisions, outcome vectors / payload shapes / fault plan)",
		Real: []string{"zapcore.NewMultiWriteSyncer, Lock, AddSync", "zapio.Writer", "zap.NewStdLog(...).Writer() (loggerWriter)", "zaptest.TestingWriter", "zapcore.BufferedWriteSyncer + bufio"},
		Stub: []string{"scripted sinks (zsim.SimSink: full/short/zero/lying counts, errors, disk-full, mid-write yields)", "testing.TB behind TestingWriter", "clock"},
	})
}

type c13T struct {
	logs   []string
	failed bool
}

func (t *c13T) Logf(f string, a ...interface{}) { t.logs = append(t.logs, fmt.Sprintf(f, a...)) }
func (t *c13T) Errorf(f string, a ...interface{}) {
	t.logs = append(t.logs, fmt.Sprintf(f, a...))
	t.failed = true
}
func (t *c13T) Fail()        { t.failed = true }
func (t *c13T) Failed() bool { return t.failed }
func (t *c13T) Name() string { return "c13" }
func (t *c13T) FailNow()     { t.failed = true }

type plainWriter struct{ buf bytes.Buffer }

func (p *plainWriter) Write(b []byte) (int, error) { return p.buf.Write(b) }

// syncOnlyWriter has Write and Sync but nothing else (no Close).
type syncOnlyWriter struct {
	syncs int
	err   error
}

func (s *syncOnlyWriter) Write(b []byte) (int, error) { return len(b), nil }
func (s *syncOnlyWriter) Sync() error                 { s.syncs++; return s.err }

// c13combined: operations through Lock(multi(Lock(a), Lock(b))) are mutually
// exclusive as a whole: every sink sees the same sequence of payloads.
func c13combined(c *Ctx) {
	g, r := c.G, c.R
	k := 2 + g.Draw(2)
	var sinks []*zsim.SimSink
	var ws []zapcore.WriteSyncer
	for i := 0; i < k; i++ {
		s := zsim.NewSimSink(r, fmt.Sprintf("s%d", i), 1+g.Draw(2), uint64(i)+3)
		sinks = append(sinks, s)
		if g.Draw(3) != 0 {
			ws = append(ws, zapcore.Lock(s))
		} else {
			ws = append(ws, s)
		}
	}
	var target zapcore.WriteSyncer
	if g.Chance(2) {
		target = zap.CombineWriteSyncers(ws...)
	} else {
		target = zapcore.Lock(zapcore.NewMultiWriteSyncer(ws...))
	}
	nTasks := 2 + g.Draw(2)
	c.Describe("member=lock-over-multi sinks=%d tasks=%d policy=%s", k, nTasks, r.Policy)
	for t := 0; t < nTasks; t++ {
		t := t
		n := 1 + g.Draw(3)
		r.Go(fmt.Sprintf("t%d", t), func() {
			for i := 0; i < n; i++ {
				if i == 1 {
					_ = target.Sync()
				}
				p := []byte(fmt.Sprintf("<t%d.%d:%s>\n", t, i, strings.Repeat("x", i*7)))
				if nn, err := target.Write(p); nn != len(p) || err != nil {
					c.Fail("C13: a locked multi-WriteSyncer over healthy sinks did not accept the payload", "(%d, %v)", nn, err)
					return
				}
				zsim.Yield(zsim.KOp, nil)
			}
		})
	}
	c.Nontrivial = true
	c.Sim()
	for i := 1; i < k; i++ {
		if !bytes.Equal(sinks[i].Data, sinks[0].Data) {
			c.Fail("C13: operations through Lock over a multi-WriteSyncer overlapped (the sinks saw different sequences)", "sink 0: %q\nsink %d: %q", clip(sinks[0].Data), i, clip(sinks[i].Data))
			return
		}
	}
	c.MixState(uint64(len(sinks[0].Data)))
}

// flushOnlyWriter has Write and Flush (like bufio.Writer) but no Sync.
type flushOnlyWriter struct{ flushes int }

func (f *flushOnlyWriter) Write(b []byte) (int, error) { return len(b), nil }
func (f *flushOnlyWriter) Flush() error                { f.flushes++; return errors.New("flush called") }

func runC13(c *Ctx) {
	if c.G.Chance(8) {
		c13combined(c)
		return
	}
	switch c.G.Weighted(3, 3, 2, 3, 2) {
	case 0:
		c13multi(c)
	case 1:
		c13lock(c)
	case 4:
		c13lockBuffered(c)
	case 2:
		c13writers(c)
	default:
		c13bufferedFaulty(c)
	}
}

// ---- (multi) ----

// outcome codes: count kind (0 full, 1 short, 2 zero) * 2 + (1 if error)
func c13outcome(code int, n int, name string, rnd int) (zsim.Outcome, error) {
	var o zsim.Outcome
	switch code / 2 {
	case 1:
		if n > 1 {
			o.Short = 1 + rnd%(n-1)
		} else {
			o.Short = -1
		}
	case 2:
		o.Short = -1
	}
	if code%2 == 1 {
		o.Err = fmt.Errorf("injected write error on %s", name)
	}
	return o, o.Err
}

// sinks handed out by the zsimc13 scheme (registered once per process)
var (
	c13register  sync.Once
	c13openSinks []*zsim.SimSink
)

type c13sink struct{ *zsim.SimSink }

func (s c13sink) Close() error { return s.SimSink.Close() }

func c13multi(c *Ctx) {
	g, r := c.G, c.R
	k := 2 + g.Weighted(6, 6, 2, 1)
	if k == 5 {
		k = 5 + g.Draw(4) // now and then a wide one: 5-8 sinks, most of them failing at once
		c.R.Probe("multi-WriteSyncer over 5-8 sinks")
	}
	plen := pick(g, 1, 2, 5, 16, 100)
	payload := []byte(strings.Repeat("p", plen-1) + "\n")
	total := 1
	for i := 0; i < k; i++ {
		total *= 6
	}
	vectors := total
	enumerate := k <= 3
	if !enumerate {
		vectors = 60
	}
	// how the sinks are handed over: flat, or with a consecutive group of them
	// already combined into a multi-WriteSyncer of its own (first, last or
	// middle position); the observable contract is the same
	shape := g.Draw(5)
	// who builds it: NewMultiWriteSyncer, CombineWriteSyncers (the same behind
	// Lock), or zap.Open over sinks from a registered factory
	via := g.Weighted(3, 1, 1)
	// one run in four: every failing sink fails with one and the same error value
	sharedErr := g.Chance(4)
	if sharedErr {
		c.R.Probe("failing sinks share one error value")
	}
	// one run in four (not through zap.Open): io.Discard behind AddSync is one
	// more member, in front, in the middle or at the end - it takes everything
	// and never fails, so it changes neither the smallest count nor the errors
	discardAt := -1
	if via != 2 && g.Chance(4) {
		discardAt = g.Draw(3)
		c.R.Probe("multi-WriteSyncer with an io.Discard member")
	}
	if via == 2 {
		shape = 0
		c13register.Do(func() {
			_ = zap.RegisterSink("zsimc13", func(u *url.URL) (zap.Sink, error) {
				var i int
				if _, err := fmt.Sscanf(u.Host, "s%d", &i); err != nil || i < 0 || i >= len(c13openSinks) {
					return nil, fmt.Errorf("no such sink %q", u.Host)
				}
				return c13sink{c13openSinks[i]}, nil
			})
		})
	}
	c.R.Probe("multi-WriteSyncer built by " + []string{"NewMultiWriteSyncer", "CombineWriteSyncers", "zap.Open"}[via])
	c.Describe("member=multi sinks=%d payload=%d vectors=%d exhaustive=%v shape=%d built-by=%s", k, plen, vectors, enumerate, shape, []string{"NewMultiWriteSyncer", "CombineWriteSyncers", "zap.Open"}[via])
	c.Nontrivial = true
	for v := 0; v < vectors; v++ {
		code := v
		if !enumerate {
			code = g.Draw(total)
		}
		c.MixState(uint64(code))
		sinks := make([]*zsim.SimSink, k)
		ws := make([]zapcore.WriteSyncer, k)
		var wantErrs, wantSyncErrs []error
		minN := -1
		cc := code
		for i := 0; i < k; i++ {
			name := fmt.Sprintf("s%d", i)
			s := zsim.NewSimSink(r, name, 1, 1)
			digit := cc % 6
			if k >= 5 && digit%2 == 0 && (v+i)%3 != 0 {
				digit++ // wide ones: two sinks in three fail in the same call
			}
			o, e := c13outcome(digit, plen, name, v+i)
			cc /= 6
			if sharedErr && e != nil {
				o.Err, e = errC13shared, errC13shared
			}
			s.WritePlan = []zsim.Outcome{o}
			if e != nil {
				wantErrs = append(wantErrs, e)
				c.Fault("sink-write-error")
			}
			if o.Short != 0 {
				c.Fault("sink-short-or-zero-count")
			}
			// sync outcome: drawn from the vector index so that both occur at every position
			if (v>>uint(i))&1 == 1 {
				se := fmt.Errorf("injected sync error on %s", name)
				if sharedErr {
					se = errC13shared
				}
				s.SyncPlan = []error{se}
				wantSyncErrs = append(wantSyncErrs, se)
				c.Fault("sink-sync-error")
			}
			take := plen
			if o.Short < 0 {
				take = 0
			} else {
				take -= o.Short
			}
			if minN < 0 || take < minN {
				minN = take
			}
			sinks[i], ws[i] = s, s
		}
		args := ws
		lo, hi := -1, -1
		switch {
		case shape == 1:
			lo, hi = 0, 2
		case shape == 2:
			lo, hi = k-2, k
		case shape == 3 && k >= 3:
			lo, hi = 1, 3
		}
		if lo >= 0 {
			args = append([]zapcore.WriteSyncer(nil), ws[:lo]...)
			args = append(args, zapcore.NewMultiWriteSyncer(ws[lo:hi]...))
			args = append(args, ws[hi:]...)
		}
		if shape == 4 && k >= 4 {
			// two groups: two elements of the multi are multis themselves
			args = []zapcore.WriteSyncer{zapcore.NewMultiWriteSyncer(ws[0:2]...), zapcore.NewMultiWriteSyncer(ws[2:4]...)}
			args = append(args, ws[4:]...)
		}
		if discardAt >= 0 {
			at := []int{0, len(args) / 2, len(args)}[discardAt]
			with := append([]zapcore.WriteSyncer(nil), args[:at]...)
			with = append(with, zapcore.AddSync(io.Discard))
			args = append(with, args[at:]...)
		}
		given := append([]zapcore.WriteSyncer(nil), args...)
		var m zapcore.WriteSyncer
		switch via {
		case 0:
			m = zapcore.NewMultiWriteSyncer(args...)
		case 1:
			m = zap.CombineWriteSyncers(args...)
		default:
			// the multi-WriteSyncer programs get from zap.Open: the sinks come
			// from a registered factory
			c13openSinks = sinks
			var urls []string
			for i := range sinks {
				urls = append(urls, fmt.Sprintf("zsimc13://s%d/x", i))
			}
			opened, _, oerr := zap.Open(urls...)
			if oerr != nil {
				c.Fail("C13: harness: zap.Open over the registered scheme failed", "%v", oerr)
				return
			}
			m = opened
		}
		for i := range given {
			if !c13same(args[i], given[i]) {
				c.Fail("C13: NewMultiWriteSyncer modified the slice of sinks it was given", "shape %d: element %d was replaced", shape, i)
				return
			}
		}
		p := append([]byte(nil), payload...)
		n, err := m.Write(p)
		for i, s := range sinks {
			if s.Writes != 1 {
				c.Fail("C13: a multi-WriteSyncer did not call Write exactly once on every sink", "vector %d: sink %d got %d Write calls", code, i, s.Writes)
				return
			}
			// what the sink was handed is what it took plus what it refused
			if s.Calls[0].Len != len(s.Data) {
				c.Fail("C13: harness: sink bookkeeping", "")
				return
			}
			if !bytes.HasPrefix(payload, s.Data) {
				c.Fail("C13: a sink of a multi-WriteSyncer received different bytes", "vector %d sink %d: %q", code, i, s.Data)
				return
			}
		}
		if !bytes.Equal(p, payload) {
			c.Fail("C13: the multi-WriteSyncer modified the caller's payload", "vector %d", code)
			return
		}
		if n != minN {
			if c.known("C13: multi-WriteSyncer Write does not return the smallest count any sink reported") {
				// counted, continue
			} else {
				c.Fail("C13: multi-WriteSyncer Write does not return the smallest count any sink reported", "outcome vector %d over %d sinks (counts %v): returned %d, smallest reported %d", code, k, c13counts(sinks), n, minN)
				return
			}
		}
		if !c13errsMatch(err, wantErrs) {
			c.Fail("C13: multi-WriteSyncer Write does not return exactly the errors of its sinks", "vector %d: got %v, want all of %v", code, err, wantErrs)
			return
		}
		serr := m.Sync()
		for i, s := range sinks {
			if s.Syncs < 1 {
				c.Fail("C13: multi-WriteSyncer Sync did not reach every sink", "vector %d: sink %d got %d Sync calls", code, i, s.Syncs)
				return
			}
		}
		if !c13errsMatch(serr, wantSyncErrs) {
			c.Fail("C13: multi-WriteSyncer Sync does not return exactly the errors of its sinks", "vector %d: got %v, want all of %v", code, serr, wantSyncErrs)
			return
		}
		// every Sync reaches every sink: also one that follows another Sync
		// with nothing written in between, and with other sinks failing now
		for round := 2; round <= 3; round++ {
			var want2 []error
			before := make([]int, len(sinks))
			for i, s := range sinks {
				var se error
				if ((v+round)>>uint(i))&1 == 1 {
					se = fmt.Errorf("injected sync error #%d on %s", round, s.Name)
					if sharedErr {
						se = errC13shared
					}
					want2 = append(want2, se)
				}
				// the outcome holds for every Sync call the sink receives in this
				// round (the statement asks that Sync reaches every sink, not
				// that it does so exactly once)
				before[i] = s.Syncs
				s.SyncPlan = s.SyncPlan[:0]
				for len(s.SyncPlan) < s.Syncs {
					s.SyncPlan = append(s.SyncPlan, nil)
				}
				s.SyncPlan = append(s.SyncPlan, se, se, se, se)
			}
			serr = m.Sync()
			for i, s := range sinks {
				if s.Syncs <= before[i] {
					c.Fail("C13: multi-WriteSyncer Sync did not reach every sink", "vector %d: Sync #%d did not reach sink %d (%d calls so far)", code, round, i, s.Syncs)
					return
				}
			}
			if !c13errsMatch(serr, want2) {
				c.Fail("C13: multi-WriteSyncer Sync does not return exactly the errors of its sinks", "vector %d, Sync #%d: got %v, want all of %v", code, round, serr, want2)
				return
			}
		}
	}
}

// c13same: identity of two WriteSyncers, also for values that == cannot
// compare (a slice type or a struct holding a slice behind a multi-WriteSyncer):
// those are the same when their representations are bit for bit the same.
func c13same(a, b zapcore.WriteSyncer) bool {
	va, vb := reflect.ValueOf(a), reflect.ValueOf(b)
	if va.Type() != vb.Type() {
		return false
	}
	if va.Comparable() {
		return a == b
	}
	if va.Kind() == reflect.Ptr || va.Kind() == reflect.Map || va.Kind() == reflect.Chan || va.Kind() == reflect.Func {
		return va.Pointer() == vb.Pointer()
	}
	// a non-pointer value in an interface is held by reference to a copy
	n := va.Type().Size()
	pa, pb := ifacePtr(a), ifacePtr(b)
	if pa == nil || pb == nil {
		return pa == pb
	}
	return bytes.Equal(unsafe.Slice((*byte)(pa), n), unsafe.Slice((*byte)(pb), n))
}

func c13counts(sinks []*zsim.SimSink) []int {
	var out []int
	for _, s := range sinks {
		out = append(out, s.Calls[0].N)
	}
	return out
}

func c13errsMatch(got error, want []error) bool {
	if len(want) == 0 {
		return got == nil
	}
	if got == nil {
		return false
	}
	text := got.Error()
	mult := map[string]int{}
	for _, w := range want {
		if !errors.Is(got, w) && !strings.Contains(text, w.Error()) {
			return false
		}
		mult[w.Error()]++
	}
	// "all of their errors": sinks that fail with one and the same error value
	// (two files on one full disk) are still that many failures
	for t, n := range mult {
		if n > 1 && strings.Count(text, t) < n {
			return false
		}
	}
	return true
}

// errC13shared: one error value returned by several sinks at once.
var errC13shared = errors.New("no space left on the device the sinks share")

// ---- (lock) ----

type c13res struct {
	kind byte
	n    int
	err  error
}

func c13lock(c *Ctx) {
	g, r := c.G, c.R
	sink := zsim.NewSimSink(r, "dev", 1+g.Draw(3), uint64(g.Draw(1<<16))+1)
	r.Label(unsafe.Pointer(sink), "dev")
	// scripted outcomes per call index
	nPlan := 12
	for i := 0; i < nPlan; i++ {
		var o zsim.Outcome
		switch c.F.Weighted(6, 1, 1, 1, 1) {
		case 1:
			o.Err = fmt.Errorf("injected write error #%d", i)
		case 2:
			o.Short = 1
			o.Err = io.ErrShortWrite
		case 3:
			o.Short = -1
			o.Err = fmt.Errorf("injected zero write #%d", i)
		case 4:
			// part of the payload taken, then an error that calls itself
			// temporary: the caller's business, relayed like any other
			o.Short = 1 + c.F.Draw(12)
			o.Err = []error{syscall.EAGAIN, syscall.EINTR}[c.F.Draw(2)]
		}
		sink.WritePlan = append(sink.WritePlan, o)
		var se error
		if c.F.Chance(5) {
			se = fmt.Errorf("injected sync error #%d", i)
		}
		sink.SyncPlan = append(sink.SyncPlan, se)
	}
	locked := zapcore.Lock(sink)
	// (whether Lock(Lock(x)) and AddSync(x) hand back x itself is an
	// optimisation, not part of the statement: what they return is judged by
	// what it does - the tasks below drive the doubly locked syncer half of
	// the time)
	if c.G.Chance(2) {
		locked = zapcore.Lock(locked)
	}
	{
		own := &syncOnlyWriter{}
		ws := zapcore.AddSync(zapcore.AddSync(own))
		if err := ws.Sync(); err != nil || own.syncs != 1 {
			c.Fail("C13: AddSync did not keep the existing Sync of a writer", "AddSync(AddSync(w)).Sync() returned %v after %d calls of the writer's own Sync", err, own.syncs)
			return
		}
	}
	// files whose own Sync fails (a pipe end, a character device): AddSync keeps
	// that Sync and relays its verdict, whatever it is
	if g.Chance(8) {
		c.R.Probe("AddSync over a pipe end and a character device")
		var files []*os.File
		if pr, pw, err := os.Pipe(); err == nil {
			files = append(files, pw)
			defer pr.Close()
		}
		if dn, err := os.OpenFile(os.DevNull, os.O_WRONLY, 0); err == nil {
			files = append(files, dn)
		}
		for _, f := range files {
			own := f.Sync()
			via := zapcore.AddSync(f).Sync()
			viaLock := zapcore.Lock(zapcore.AddSync(f)).Sync()
			f.Close()
			if (own == nil) != (via == nil) || (own == nil) != (viaLock == nil) || (own != nil && own.Error() != via.Error()) {
				c.Fail("C13: AddSync did not keep the existing Sync of a writer", "%s: the file's own Sync returned %v, through AddSync %v, through Lock(AddSync) %v", f.Name(), own, via, viaLock)
				return
			}
		}
	}
	so := &syncOnlyWriter{err: errors.New("sync error of the wrapped writer")}
	sw := zapcore.AddSync(so)
	if err := sw.Sync(); err != so.err || so.syncs != 1 {
		c.Fail("C13: AddSync did not keep the existing Sync of a writer", "Sync returned %v after %d calls of the writer's own Sync", err, so.syncs)
		return
	}
	fw := &flushOnlyWriter{}
	if err := zapcore.AddSync(fw).Sync(); err != nil || fw.flushes != 0 {
		c.Fail("C13: the Sync added by AddSync is not a no-op", "writer with Flush() but no Sync(): Sync returned %v after %d Flush calls", err, fw.flushes)
		return
	}
	pw := &plainWriter{}
	aw := zapcore.AddSync(pw)
	if n, err := aw.Write([]byte("abc")); n != 3 || err != nil || pw.buf.String() != "abc" {
		c.Fail("C13: AddSync did not relay Write unchanged", "(%d, %v) buffer %q", n, err, pw.buf.String())
		return
	}
	if err := aw.Sync(); err != nil {
		c.Fail("C13: the Sync added by AddSync is not a no-op", "%v", err)
		return
	}
	nTasks := 2 + g.Draw(2)
	type op struct {
		kind byte
		n    int
	}
	progs := make([][]op, nTasks)
	for t := range progs {
		for i := 0; i < 1+g.Draw(4); i++ {
			if g.Chance(3) {
				progs[t] = append(progs[t], op{'S', 0})
			} else {
				progs[t] = append(progs[t], op{'W', 1 + g.Draw(40)})
				// an empty payload is a call like any other: it is passed on under
				// the same exclusion
				if g.Chance(5) {
					progs[t][len(progs[t])-1].n = 0
					c.R.Probe("an empty payload through Lock")
				}
			}
		}
	}
	// one run in three: the locked syncer is reached on two paths - directly, and
	// as a member of a combined syncer next to a healthy sink; calls on either
	// path exclude each other at the device
	paths := []zapcore.WriteSyncer{locked}
	if g.Chance(3) {
		other := zsim.NewSimSink(r, "other", 1, 7)
		r.Label(unsafe.Pointer(other), "other")
		paths = append(paths, zap.CombineWriteSyncers(locked, other))
		c.R.Probe("a locked syncer reached directly and through a combined syncer")
	}
	c.Describe("member=lock tasks=%d frag=%d progs=%v paths=%d policy=%s", nTasks, sink.Frag, progs, len(paths), r.Policy)
	results := make([][]c13res, nTasks)
	for t := range progs {
		t := t
		r.Go(fmt.Sprintf("t%d", t), func() {
			for i, o := range progs[t] {
				if o.kind == 'W' {
					p := bytes.Repeat([]byte{byte('a' + t)}, o.n)
					if o.n > 0 {
						p[0] = byte('0' + i)
					}
					n, err := paths[(t+i)%len(paths)].Write(p)
					results[t] = append(results[t], c13res{'W', n, err})
				} else {
					err := paths[(t+i)%len(paths)].Sync()
					results[t] = append(results[t], c13res{'S', 0, err})
				}
				zsim.Yield(zsim.KOp, nil)
			}
		})
	}
	c.Nontrivial = true
	c.Sim()
	// results relayed unchanged: per task, the sequence of (n, err) equals what
	// the device answered to that task's calls
	per := map[string][]zsim.SinkCall{}
	for _, call := range sink.Calls {
		per[call.Task] = append(per[call.Task], call)
	}
	for t := range progs {
		name := fmt.Sprintf("t%d", t)
		if len(per[name]) != len(results[t]) {
			c.Fail("C13: Lock did not pass every call to the wrapped WriteSyncer exactly once", "task %s: %d calls, device saw %d", name, len(results[t]), len(per[name]))
			return
		}
		for i, res := range results[t] {
			dev := per[name][i]
			if dev.Kind != res.kind || (res.kind == 'W' && dev.N != res.n) || dev.Err != res.err {
				c.Fail("C13: Lock did not relay the wrapped WriteSyncer's result unchanged", "task %s call %d: device answered (%c, %d, %v), caller got (%c, %d, %v)", name, i, dev.Kind, dev.N, dev.Err, res.kind, res.n, res.err)
				return
			}
		}
	}
	for k, v := range sink.Fired {
		c.Faults[k] += v
	}
}

// ---- (lock over a buffering syncer) ----

// c13lockBuffered: Lock around a WriteSyncer that is not a bare device but a
// BufferedWriteSyncer over one. Every call reaches the buffered syncer through
// the Lock wrapper and no flush tick is ever delivered (the simulated clock
// stands still), so whatever the buffered syncer does to its device happens
// inside a call made under Lock: two device calls in progress at once mean
// Lock let two calls in at once.
func c13lockBuffered(c *Ctx) {
	g, r := c.G, c.R
	sink := zsim.NewSimSink(r, "dev", 1+g.Draw(3), uint64(g.Draw(1<<16))+1)
	r.Label(unsafe.Pointer(sink), "dev")
	clk := zsim.NewSimClock(r, drawEpoch(g))
	size := pick(g, 4, 8, 16, 64)
	b := &zapcore.BufferedWriteSyncer{WS: sink, Size: size, FlushInterval: time.Hour}
	b.Clock = clk.For(unsafe.Pointer(b), unsafe.Sizeof(*b))
	locked := zapcore.Lock(b)
	nTasks := 2 + g.Draw(2)
	type op struct {
		kind byte
		n    int
	}
	progs := make([][]op, nTasks)
	for t := range progs {
		for i := 0; i < 1+g.Draw(5); i++ {
			if g.Chance(3) {
				progs[t] = append(progs[t], op{'S', 0})
			} else {
				progs[t] = append(progs[t], op{'W', 1 + g.Draw(2*size)})
			}
		}
	}
	c.Describe("member=lock-over-buffered size=%d tasks=%d frag=%d progs=%v policy=%s", size, nTasks, sink.Frag, progs, r.Policy)
	c.R.Probe("member lock-over-buffered")
	accepted := make([][]byte, nTasks)
	for t := range progs {
		t := t
		r.Go(fmt.Sprintf("t%d", t), func() {
			for _, o := range progs[t] {
				if o.kind == 'W' {
					p := bytes.Repeat([]byte{byte('a' + t)}, o.n)
					n, err := locked.Write(p)
					if n != len(p) || err != nil {
						c.Fail("C13: BufferedWriteSyncer behind Lock did not report len(p), nil over a healthy sink", "task t%d: Write(len %d) = (%d, %v)", t, len(p), n, err)
						return
					}
					accepted[t] = append(accepted[t], p...)
				} else if err := locked.Sync(); err != nil {
					c.Fail("C13: Sync through Lock failed over a healthy sink", "task t%d: %v", t, err)
					return
				}
				zsim.Yield(zsim.KOp, nil)
			}
		})
	}
	c.Nontrivial = true
	c.Sim()
	if r.Failed() {
		return
	}
	if err := locked.Sync(); err != nil {
		c.Fail("C13: Sync through Lock failed over a healthy sink", "final Sync: %v", err)
		return
	}
	_ = b.Stop()
	// each task's bytes arrive complete and in that task's order
	got := make([][]byte, nTasks)
	for _, ch := range sink.Data {
		if t := int(ch) - 'a'; t >= 0 && t < nTasks {
			got[t] = append(got[t], ch)
		} else {
			c.Fail("C13: a byte no task wrote reached the sink behind Lock", "%q in %q", ch, clip(sink.Data))
			return
		}
	}
	for t := range got {
		if !bytes.Equal(got[t], accepted[t]) {
			c.Fail("C13: after a Sync through Lock the sink does not hold what the tasks wrote", "task t%d wrote %d bytes, the sink holds %d of them", t, len(accepted[t]), len(got[t]))
			return
		}
	}
	c.MixState(uint64(len(sink.Data))<<8 | uint64(sink.Writes))
}

// ---- (writers) ----

func c13payloads(g *zsim.Stream, n int) [][]byte {
	var out [][]byte
	for i := 0; i < n; i++ {
		var p string
		switch g.Weighted(3, 1, 2, 2, 2, 1, 1, 1) {
		case 0:
			p = fmt.Sprintf("line %d\n", i)
		case 1:
			p = ""
		case 2:
			p = pick(g, " ", "  \t ", "\n", "\n\n", " \n ", "\t\n")
		case 3:
			p = fmt.Sprintf("  padded %d  \n", i)
		case 4:
			p = fmt.Sprintf("no newline %d", i)
		case 5:
			p = strings.Repeat("L", 300+g.Draw(3000)) + "\n"
		case 6:
			p = fmt.Sprintf("a%d\nb\n\nc", i)
		case 7:
			p = fmt.Sprintf("trailing %d\n\n\n", i)
		}
		out = append(out, []byte(p))
	}
	return out
}

func c13writers(c *Ctx) {
	g := c.G
	which := g.Draw(4)
	payloads := c13payloads(g, 1+g.Draw(8))
	// the logger under the logging writers enables everything, or sits behind a
	// level that is moved while payloads arrive: a payload that is logged nowhere
	// has been accepted all the same
	coreLevel := zap.NewAtomicLevelAt(pick(g, zapcore.DebugLevel, zapcore.DebugLevel, zapcore.InfoLevel, zapcore.ErrorLevel, zapcore.FatalLevel))
	moving := g.Chance(3)
	core, _ := observer.New(coreLevel)
	lg := zap.New(core)
	if which <= 1 && g.Chance(8) {
		lg = zap.NewNop()
	}
	var w io.Writer
	name, detail := "", ""
	switch which {
	case 0:
		name = "zapio.Writer"
		w = &zapio.Writer{Log: lg, Level: pick(g, zapcore.InfoLevel, zapcore.DebugLevel, zapcore.ErrorLevel)}
	case 1:
		name = "std-log bridge writer"
		w = zap.NewStdLog(lg).Writer()
		if g.Chance(2) {
			at := pick(g, zapcore.DebugLevel, zapcore.InfoLevel, zapcore.WarnLevel, zapcore.ErrorLevel)
			if sl, err := zap.NewStdLogAt(lg, at); err == nil {
				w = sl.Writer()
				detail = " (NewStdLogAt " + at.String() + ")"
			}
		}
	case 2:
		name = "zaptest.TestingWriter"
		w = zaptest.NewTestingWriter(&c13T{}).WithMarkFailed(g.Chance(2))
	case 3:
		name = "BufferedWriteSyncer"
		sink := zsim.NewSimSink(c.R, "dev", 1, 1)
		clk := zsim.NewSimClock(c.R, drawEpoch(g))
		b := &zapcore.BufferedWriteSyncer{WS: sink, Size: pick(g, 1, 8, 64, 0), Clock: clk}
		defer b.Stop()
		w = b
	}
	var shapes []string
	for _, p := range payloads {
		shapes = append(shapes, fmt.Sprintf("%q", clip(p)))
		c.MixState(uint64(len(p))<<8 | uint64(which))
	}
	c.Describe("member=writers writer=%s%s logger-level=%s moving=%v payloads=[%s]", name, detail, coreLevel.Level(), moving, strings.Join(shapes, ","))
	c.Nontrivial = len(payloads) >= 2
	for i, p := range payloads {
		if moving && g.Chance(3) {
			coreLevel.SetLevel(pick(g, zapcore.DebugLevel, zapcore.WarnLevel, zapcore.ErrorLevel, zapcore.FatalLevel))
		}
		orig := append([]byte(nil), p...)
		n, err := w.Write(p)
		if !bytes.Equal(p, orig) {
			c.Fail("C13: a writer modified the caller's payload", "%s payload %d", name, i)
			return
		}
		if err != nil {
			c.Fail("C13: a writer over a healthy destination returned an error", "%s payload %d %q: (%d, %v)", name, i, clip(p), n, err)
			return
		}
		if n != len(p) {
			sig := "C13: " + name + " accepted the whole payload but reported a short count with a nil error"
			if c.known(sig) {
				continue
			}
			c.Fail(sig, "payload %d %q (len %d): returned (%d, nil)", i, clip(p), len(p), n)
			return
		}
	}
}

// ---- (buffered-faulty) ----

func c13bufferedFaulty(c *Ctx) {
	g, f := c.G, c.F
	shortNil := false
	sink := zsim.NewSimSink(c.R, "dev", 1, 1)
	sink.MustProgress = true
	for i := 0; i < 8; i++ {
		var o zsim.Outcome
		switch f.Weighted(5, 2, 2, 1, 3) {
		case 4:
			// takes only part of the bytes and says so, without an error (the
			// writer above must cope: retry the rest or report the short write)
			o.Short = 1 + f.Draw(6)
			shortNil = true
		case 1:
			o.Short, o.Err = -1, fmt.Errorf("injected write error #%d", i)
		case 2:
			o.Short, o.Err = 1+f.Draw(4), io.ErrShortWrite
		case 3:
			o.Short, o.Err = 1, fmt.Errorf("injected short write with its own error #%d", i)
		}
		sink.WritePlan = append(sink.WritePlan, o)
	}
	if f.Chance(3) {
		sink.FailFrom = 1 + f.Draw(5)
	}
	for i := 0; i < 4; i++ {
		var se error
		if f.Chance(4) {
			se = fmt.Errorf("injected sync error #%d", i)
		}
		sink.SyncPlan = append(sink.SyncPlan, se)
	}
	clk := zsim.NewSimClock(c.R, drawEpoch(g))
	size := pick(g, 4, 8, 16, 32)
	b := &zapcore.BufferedWriteSyncer{WS: sink, Size: size, Clock: clk, FlushInterval: time.Second}
	var stream []byte
	nOps := 2 + g.Draw(10)
	var desc []string
	for i := 0; i < nOps; i++ {
		switch g.Weighted(6, 2) {
		case 0:
			p := bytes.Repeat([]byte{byte('a' + i%26)}, 1+g.Draw(2*size))
			stream = append(stream, p...)
			n, err := b.Write(p)
			desc = append(desc, fmt.Sprintf("W(%d)=(%d,%v)", len(p), n, err != nil))
			if n < 0 || n > len(p) {
				c.Fail("C13: Write returned a count outside [0, len(p)]", "BufferedWriteSyncer.Write(len %d) = %d", len(p), n)
				return
			}
			if n < len(p) && err == nil {
				c.Fail("C13: BufferedWriteSyncer returned a short count without an error", "Write(len %d) = (%d, nil) over a failing sink", len(p), n)
				return
			}
			if err != nil {
				// what was not accepted is not part of the stream
				stream = stream[:len(stream)-len(p)+n]
				// after an error bufio keeps failing; nothing more can be promised
				// about later payloads except that the device holds a prefix
			}
		case 1:
			err := b.Sync()
			desc = append(desc, fmt.Sprintf("Sync=%v", err != nil))
		}
		if !c13isInterleavedPrefix(sink.Data, stream) {
			c.Fail("C13: bytes reached the sink that are not a prefix of the accepted stream (duplicated, reordered or invented)", "after op %d (%s): sink %q, accepted stream %q", i, desc[len(desc)-1], clip(sink.Data), clip(stream))
			return
		}
	}
	_ = b.Stop()
	for k, v := range sink.Fired {
		c.Faults[k] += v
	}
	c.Describe("member=buffered-faulty size=%d short-count-without-error-sink=%v ops=%s faults=%v", size, shortNil, strings.Join(desc, " "), sink.Fired)
	c.MixState(uint64(len(sink.Data))<<16 | uint64(len(stream)))
	c.Nontrivial = len(sink.Fired) > 0
}

// the device must hold a prefix of the accepted stream
func c13isInterleavedPrefix(data, stream []byte) bool { return bytes.HasPrefix(stream, data) }
