package props

import (
	"time"

	"verif/zsim"
)

// Shrink minimises a failing tape by delta debugging, re-running the real
// system on every candidate; a candidate is kept only if the same violation
// signature recurs. exec returns the signature ("" = no violation) and the
// tape actually consumed by that execution.
func Shrink(start zsim.TapeData, sig string, exec func(zsim.TapeData) (string, zsim.TapeData), maxAttempts int, budget time.Duration) (zsim.TapeData, int) {
	best := start
	attempts := 0
	deadline := time.Now().Add(budget)
	try := func(cand zsim.TapeData) bool {
		if attempts >= maxAttempts || time.Now().After(deadline) {
			return false
		}
		attempts++
		s, used := exec(cand)
		if s == sig {
			best = used
			return true
		}
		return false
	}
	streams := func(d *zsim.TapeData) []*[]uint32 { return []*[]uint32{&d.Gen, &d.Fault, &d.Sched} }
	clone := func(d zsim.TapeData) zsim.TapeData {
		return zsim.TapeData{Gen: append([]uint32(nil), d.Gen...), Sched: append([]uint32(nil), d.Sched...), Fault: append([]uint32(nil), d.Fault...)}
	}
	for pass := 0; pass < 6; pass++ {
		progress := false
		for si := 0; si < 3; si++ {
			// 1. truncate the tail (missing entries read as 0)
			for {
				cur := *streams(&best)[si]
				if len(cur) == 0 {
					break
				}
				ok := false
				for _, keep := range []int{0, len(cur) / 2, len(cur) * 3 / 4, len(cur) - 1} {
					if keep >= len(cur) {
						continue
					}
					cand := clone(best)
					*streams(&cand)[si] = (*streams(&cand)[si])[:keep]
					if try(cand) {
						ok, progress = true, true
						break
					}
				}
				if !ok {
					break
				}
			}
			// 2. delete blocks
			for _, bs := range []int{8, 4, 2, 1} {
				for i := 0; ; {
					cur := *streams(&best)[si]
					if i+bs > len(cur) {
						break
					}
					cand := clone(best)
					s := streams(&cand)[si]
					*s = append((*s)[:i], (*s)[i+bs:]...)
					if try(cand) {
						progress = true
					} else {
						i += bs
					}
				}
			}
			// 3. zero entries, 4. halve / decrement
			for i := 0; ; i++ {
				cur := *streams(&best)[si]
				if i >= len(cur) {
					break
				}
				if cur[i] == 0 {
					continue
				}
				cand := clone(best)
				(*streams(&cand)[si])[i] = 0
				if try(cand) {
					progress = true
					continue
				}
				cur = *streams(&best)[si]
				if i < len(cur) && cur[i] > 1 {
					cand = clone(best)
					(*streams(&cand)[si])[i] = cur[i] / 2
					if try(cand) {
						progress = true
						continue
					}
					cand = clone(best)
					(*streams(&cand)[si])[i] = cur[i] - 1
					if try(cand) {
						progress = true
					}
				}
			}
		}
		if !progress || attempts >= maxAttempts || time.Now().After(deadline) {
			break
		}
	}
	return best, attempts
}
