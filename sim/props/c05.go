package props

import (
	"bytes"
	"context"
	"encoding/json"
	"flag"
	"fmt"
	"log"
	"log/slog"
	"net/http"
	"net/http/httptest"
	"sort"
	"strings"
	"time"
	"unsafe"

	"go.uber.org/zap"
	"go.uber.org/zap/exp/zapslog"
	"go.uber.org/zap/zapcore"
	"go.uber.org/zap/zapgrpc"
	"go.uber.org/zap/zaptest/observer"

	"verif/zsim"
)

// C05 — an entry is written exactly where its level is enabled; reported levels agree.

func init() {
	register(&Prop{
		ID:  "C05",
		Run: runC05,
		Rule: "one case = a random core tree (<= 12 nodes, depth <= 4: observer and IO leaves with static, shared-AtomicLevel or arbitrary 256-bit-set enablers under tee / increase-level / hooks / pass-all sampler / lazy-with / With nodes; in a quarter of the runs some IO destinations refuse every write and some hooks report errors) under a Logger with sugared, slog and gRPC views, and a history of <= 24 operations (log at any of 256 level values through a drawn front end with a counting marshaler, Enabled/Level/LevelOf/V queries, changes of shared AtomicLevels through SetLevel, UnmarshalText, JSON decoding, flag.TextVar and the HTTP PUT handler), executed by 1 task (exact history semantics) or 2-3 tasks with level changes racing log calls under a seeded schedule; " +
			"non-trivial = the tree has at least 3 nodes and at least one entry was delivered and one suppressed; distinct = distinct hash of (tree shape, scheduling decisions, sequence of (level, delivery set))",
		Real: []string{"zap.Logger.check and all front ends, SugaredLogger, zapslog.Handler, zapgrpc.Logger", "zapcore ioCore, multiCore (tee), levelFilterCore, hooked, sampler, lazyWithCore, LevelOf", "zap.AtomicLevel", "zaptest/observer"},
		Stub: []string{"IO leaf sinks (zsim.SimSink)", "hooks (counting)", "marshaler (counting)", "clock"},
	})
}

const (
	c5LeafObs = iota
	c5LeafIO
	c5Tee
	c5Incr
	c5Hooks
	c5Sampler
	c5Lazy
	c5With
	c5Drop // a sampler that drops every entry of a named level (N=0, M=0); out-of-range levels pass
)

var c5kindNames = [...]string{"obs", "io", "tee", "incr", "hooks", "sampler", "lazy", "with", "drop-sampler"}

type c5enab struct {
	kind   int // 0 static, 1 atomic, 2 set
	static zapcore.Level
	atom   int
	set    [4]uint64
}

func (e *c5enab) enabled(l zapcore.Level, val []zapcore.Level) bool {
	switch e.kind {
	case 0:
		return l >= e.static
	case 1:
		return l >= val[e.atom]
	}
	i := uint8(l)
	return e.set[i/64]>>(i%64)&1 == 1
}

func (e *c5enab) String() string {
	switch e.kind {
	case 0:
		return fmt.Sprintf(">=%d", e.static)
	case 1:
		return fmt.Sprintf("atom%d", e.atom)
	}
	var named []string
	for l := zapcore.DebugLevel; l <= zapcore.FatalLevel; l++ {
		if e.enabled(l, nil) {
			named = append(named, fmt.Sprint(int(l)))
		}
	}
	return "set{" + strings.Join(named, ",") + ",…}"
}

type c5node struct {
	id   int
	kind int
	kids []*c5node
	enab *c5enab
	core zapcore.Core
	logs *observer.ObservedLogs
	sink *zsim.SimSink
	rec  *bytes.Buffer // failing device: what it was handed
	// hook bookkeeping: message -> calls
	hookCalls map[string]int
	nHooks    int            // hook functions registered by this node (each fires once per accepted entry)
	hookWho   map[string]int // per message: bit i set when the i-th hook of the registration fired
	// lazy-with nodes: how often their deferred fields were marshaled
	lazyMarsh int
	underLazy bool // some ancestor is a lazy-with node (whose first use derives, and thereby evaluates, this one)
}

type c5lazyMarsh struct{ n *c5node }

func (m c5lazyMarsh) MarshalLogObject(enc zapcore.ObjectEncoder) error {
	m.n.lazyMarsh++
	enc.AddInt("id", m.n.id)
	return nil
}

type c5world struct {
	c       *Ctx
	atoms   []zap.AtomicLevel
	val     []zapcore.Level // model register per atomic (sequential member)
	nodes   []*c5node
	leaves  []*c5node
	hooks   []*c5node
	hasIncr bool
	marsh   map[string]int // message -> MarshalLogObject calls
	faulty  bool           // some destinations refuse their writes, some hooks report errors
}

type c5marsh struct {
	w   *c5world
	msg string
}

func (m c5marsh) MarshalLogObject(enc zapcore.ObjectEncoder) error {
	m.w.marsh[m.msg]++
	enc.AddString("m", m.msg)
	return nil
}

func (w *c5world) drawEnab(g *zsim.Stream) *c5enab {
	switch g.Weighted(4, 3, 2) {
	case 0:
		return &c5enab{kind: 0, static: zapcore.Level(g.Draw(9) - 2)} // -2..6
	case 1:
		return &c5enab{kind: 1, atom: g.Draw(len(w.atoms))}
	}
	e := &c5enab{kind: 2}
	// named levels individually, out-of-range in blocks
	for l := zapcore.DebugLevel; l <= zapcore.FatalLevel; l++ {
		if g.Draw(2) == 1 {
			i := uint8(l)
			e.set[i/64] |= 1 << (i % 64)
		}
	}
	if g.Chance(2) {
		for i := 6; i < 128; i++ {
			e.set[i/64] |= 1 << (uint(i) % 64)
		}
	}
	if g.Chance(3) {
		for i := 128; i < 255; i++ {
			e.set[i/64] |= 1 << (uint(i) % 64)
		}
	}
	return e
}

func (w *c5world) enabler(e *c5enab) zapcore.LevelEnabler {
	switch e.kind {
	case 0:
		return e.static
	case 1:
		return w.atoms[e.atom]
	}
	return zap.LevelEnablerFunc(func(l zapcore.Level) bool { return e.enabled(l, nil) })
}

// deliver: which leaves receive an entry at level l under valuation val, and
// which hook nodes fire.
func (w *c5world) deliver(n *c5node, l zapcore.Level, val []zapcore.Level, leaves, hooks map[int]bool) bool {
	switch n.kind {
	case c5LeafObs, c5LeafIO:
		if n.enab.enabled(l, val) {
			leaves[n.id] = true
			return true
		}
		return false
	case c5Tee:
		any := false
		for _, k := range n.kids {
			if w.deliver(k, l, val, leaves, hooks) {
				any = true
			}
		}
		return any
	case c5Incr:
		if !n.enab.enabled(l, val) {
			return false
		}
		return w.deliver(n.kids[0], l, val, leaves, hooks)
	case c5Hooks:
		if w.deliver(n.kids[0], l, val, leaves, hooks) {
			hooks[n.id] = true
			return true
		}
		return false
	case c5Drop:
		if l >= zapcore.DebugLevel && l <= zapcore.FatalLevel {
			return false
		}
	}
	return w.deliver(n.kids[0], l, val, leaves, hooks)
}

// reported Enabled of a node as the implementation defines it for an
// increase-level node (its own enabler only); used only to predict the
// constructor's verdict, never as an oracle of delivery.
func (w *c5world) nodeEnabled(n *c5node, l zapcore.Level, val []zapcore.Level) bool {
	switch n.kind {
	case c5LeafObs, c5LeafIO, c5Incr:
		return n.enab.enabled(l, val)
	case c5Tee:
		for _, k := range n.kids {
			if w.nodeEnabled(k, l, val) {
				return true
			}
		}
		return false
	}
	return w.nodeEnabled(n.kids[0], l, val)
}

func (w *c5world) markUnderLazy(n *c5node, under bool) {
	n.underLazy = under
	for _, k := range n.kids {
		w.markUnderLazy(k, under || n.kind == c5Lazy)
	}
}

func (w *c5world) gen(g *zsim.Stream, depth int, budget *int) *c5node {
	n := &c5node{id: len(w.nodes)}
	w.nodes = append(w.nodes, n)
	*budget--
	leafW := 2
	if depth >= 3 || *budget <= 0 {
		leafW = 1000
	}
	switch g.Weighted(leafW, leafW, 3, 2, 2, 1, 1, 1, 1) {
	case 0:
		n.kind = c5LeafObs
	case 1:
		n.kind = c5LeafIO
	case 2:
		n.kind = c5Tee
	case 3:
		n.kind = c5Incr
	case 4:
		n.kind = c5Hooks
	case 5:
		n.kind = c5Sampler
	case 6:
		n.kind = c5Lazy
	case 7:
		n.kind = c5With
	case 8:
		n.kind = c5Drop
		// Enabled says "the level is on", not "this entry will be kept":
		// like increase-level nodes, only "Enabled false => nothing delivered" is judged
		w.hasIncr = true
	}
	switch n.kind {
	case c5LeafObs, c5LeafIO:
		n.enab = w.drawEnab(g)
		w.leaves = append(w.leaves, n)
	case c5Tee:
		k := g.Weighted(1, 2, 8, 6) // also the degenerate tees: of nothing (a no-op core) and of one core (that core itself)
		if depth <= 1 && g.Chance(10) {
			// a wide tee: 9-12 branches, leaves and hooked leaves - more cores
			// accepting one entry than a handful
			k = 9 + g.Draw(4)
			w.c.R.Probe("tee of 9-12 branches")
			for i := 0; i < k; i++ {
				if g.Chance(3) {
					h := &c5node{id: len(w.nodes), kind: c5Hooks, hookCalls: map[string]int{}}
					w.nodes = append(w.nodes, h)
					w.hooks = append(w.hooks, h)
					h.kids = []*c5node{w.gen(g, 3, budget)}
					n.kids = append(n.kids, h)
				} else {
					n.kids = append(n.kids, w.gen(g, 3, budget))
				}
			}
			break
		}
		for i := 0; i < k; i++ {
			n.kids = append(n.kids, w.gen(g, depth+1, budget))
		}
	default:
		n.kids = []*c5node{w.gen(g, depth+1, budget)}
		if n.kind == c5Incr {
			n.enab = w.drawEnab(g)
			w.hasIncr = true
		}
		if n.kind == c5Hooks {
			n.hookCalls = map[string]int{}
			w.hooks = append(w.hooks, n)
		}
	}
	return n
}

func (w *c5world) describe(n *c5node) string {
	s := c5kindNames[n.kind]
	if n.enab != nil {
		s += "[" + n.enab.String() + "]"
	}
	if len(n.kids) > 0 {
		var ks []string
		for _, k := range n.kids {
			ks = append(ks, w.describe(k))
		}
		s += "(" + strings.Join(ks, ",") + ")"
	}
	return s
}

// build constructs the real cores bottom-up. An increase-level node whose
// constructor (legitimately) refuses is replaced by its child.
func (w *c5world) build(n *c5node, frag int) zapcore.Core {
	c := w.c
	switch n.kind {
	case c5LeafObs:
		n.core, n.logs = observer.New(w.enabler(n.enab))
	case c5LeafIO:
		n.sink = zsim.NewSimSink(c.R, fmt.Sprintf("leaf%d", n.id), frag, uint64(n.id)+7)
		var ws zapcore.WriteSyncer = n.sink
		if w.faulty && c.F.Chance(2) {
			// a device that refuses every write: what it was handed is recorded
			// (that is the delivery being judged), the failure must not keep the
			// entry from any other destination or hook
			n.sink.FailFrom = 1
			n.rec = &bytes.Buffer{}
			ws = c5recording{n.sink, n.rec}
			c.Fault("failing-destination")
		}
		n.core = zapcore.NewCore(zapcore.NewJSONEncoder(encCfg()), zapcore.Lock(ws), w.enabler(n.enab))
	case c5Tee:
		var cs []zapcore.Core
		for _, k := range n.kids {
			cs = append(cs, w.build(k, frag))
		}
		n.core = zapcore.NewTee(cs...)
	case c5Incr:
		child := w.build(n.kids[0], frag)
		wantErr := false
		for l := zapcore.DebugLevel; l <= zapcore.FatalLevel; l++ {
			if !w.nodeEnabled(n.kids[0], l, w.val) && n.enab.enabled(l, w.val) {
				wantErr = true
			}
		}
		core, err := zapcore.NewIncreaseLevelCore(child, w.enabler(n.enab))
		if (err != nil) != wantErr {
			c.Fail("C05: NewIncreaseLevelCore accepted a widening enabler or rejected a narrowing one", "node %d %s over %s: error=%v, expected error=%v", n.id, n.enab, w.describe(n.kids[0]), err, wantErr)
			n.core = child
			return child
		}
		if err != nil {
			// not built: the node becomes transparent
			n.kind = c5With
			n.enab = nil
			n.core = child.With(nil)
			return n.core
		}
		n.core = core
	case c5Hooks:
		child := w.build(n.kids[0], frag)
		nn := n
		var hookErr error
		if w.faulty && c.F.Chance(2) {
			hookErr = fmt.Errorf("hook of node %d reports a failure", n.id)
			c.Fault("failing-hook")
		}
		// one to three hooks registered in one call; a failing one comes first:
		// the ones after it fire all the same
		nn.nHooks = 1 + n.id%3
		nn.hookWho = map[string]int{}
		hooks := []func(zapcore.Entry) error{func(e zapcore.Entry) error { nn.hookCalls[e.Message]++; nn.hookWho[e.Message] |= 1; return hookErr }}
		for len(hooks) < nn.nHooks {
			bit := 1 << len(hooks)
			hooks = append(hooks, func(e zapcore.Entry) error { nn.hookCalls[e.Message]++; nn.hookWho[e.Message] |= bit; return nil })
		}
		n.core = zapcore.RegisterHooks(child, hooks...)
	case c5Sampler:
		child := w.build(n.kids[0], frag)
		n.core = zapcore.NewSamplerWithOptions(child, time.Second, 1<<30, 0, zapcore.SamplerHook(func(e zapcore.Entry, d zapcore.SamplingDecision) {
			if d&zapcore.LogDropped != 0 {
				c.Fail("C05: harness: the pass-all sampler dropped an entry", "%q", e.Message)
			}
		}))
	case c5Drop:
		n.core = zapcore.NewSamplerWithOptions(w.build(n.kids[0], frag), time.Hour, 0, 0)
	case c5Lazy:
		n.core = zapcore.NewLazyWith(w.build(n.kids[0], frag), []zapcore.Field{zap.Object("lazy", c5lazyMarsh{n})})
	case c5With:
		n.core = w.build(n.kids[0], frag).With([]zapcore.Field{zap.Int("with", n.id)})
	}
	return n.core
}

// c5set changes a shared AtomicLevel: directly, or the way a configuration
// re-read or an operator does it - through its text, JSON, flag or HTTP form,
// applied to a copy of the handle (all copies share the level).
func c5set(a zap.AtomicLevel, l zapcore.Level, via int) {
	var err error
	switch via {
	case 0:
		a.SetLevel(l)
	case 1:
		err = a.UnmarshalText([]byte(l.String()))
	case 2:
		err = a.UnmarshalText([]byte(l.CapitalString()))
	case 3:
		err = json.Unmarshal([]byte(`"`+l.String()+`"`), &a)
	case 4:
		fs := flag.NewFlagSet("c05", flag.ContinueOnError)
		fs.TextVar(&a, "level", a, "")
		err = fs.Parse([]string{"-level", l.String()})
	case 5:
		req, _ := http.NewRequest("PUT", "/level", strings.NewReader(`{"level":"`+l.String()+`"}`))
		rec := httptest.NewRecorder()
		a.ServeHTTP(rec, req)
		if rec.Code != 200 {
			err = fmt.Errorf("PUT answered %d", rec.Code)
		}
	}
	if err != nil {
		panic(fmt.Sprintf("C05 harness: setting level %v via route %d failed: %v", l, via, err))
	}
}

// c5recording records what a failing device was handed.
type c5recording struct {
	*zsim.SimSink
	rec *bytes.Buffer
}

func (r c5recording) Write(p []byte) (int, error) {
	r.rec.Write(p)
	return r.SimSink.Write(p)
}

type c5noopHook struct{}

func (c5noopHook) OnWrite(*zapcore.CheckedEntry, []zapcore.Field) {}

type c5op struct {
	kind  int // 0 log, 1 query, 2 setlevel
	level zapcore.Level
	front int
	atom  int
	msg   string
	// concurrent member: harness event numbers and possible valuations
	inv, ret int64
	sib      int // 1/2: logged through hook sibling A/B
	via      int // setlevel: 0 SetLevel, else a textual / HTTP route to the same shared level
}

const (
	c5feLog = iota
	c5feCheck
	c5feSugarW
	c5feSugarF
	c5feSlog
	c5feGrpc
	c5feSugarNamed
	c5feStd // the std-log bridge (sequential histories; made when the logger is built)
	c5nFront
)

var c5interesting = []zapcore.Level{-1, 0, 1, 2, 3, 4, 5, -2, 6, 7, -128, 127, -100, 100, 50, -3}

func runC05(c *Ctx) {
	g, r := c.G, c.R
	w := &c5world{c: c, marsh: map[string]int{}}
	w.faulty = c.F.Chance(4)
	nAtoms := 1 + g.Draw(3)
	for i := 0; i < nAtoms; i++ {
		lv := zapcore.Level(g.Draw(9) - 2)
		w.atoms = append(w.atoms, zap.NewAtomicLevelAt(lv))
		w.val = append(w.val, lv)
	}
	budget := 3 + g.Draw(9)
	root := w.gen(g, 0, &budget)
	w.markUnderLazy(root, false)
	frag := 1 + g.Draw(2)
	core := w.build(root, frag)
	if r.Failed() {
		return
	}
	development := g.Chance(4)
	optIncr, optIncrWidens := false, false
	opts := []zap.Option{zap.WithPanicHook(c5noopHook{}), zap.WithFatalHook(c5noopHook{})}
	if development {
		opts = append(opts, zap.Development())
	}
	// logger-level options that wrap the core: zap.Hooks and zap.IncreaseLevel
	errOut := zsim.NewSimSink(c.R, "errout", 1, 9)
	opts = append(opts, zap.ErrorOutput(zapcore.Lock(errOut)))
	if g.Chance(4) {
		hn := &c5node{id: len(w.nodes), kind: c5Hooks, kids: []*c5node{root}, hookCalls: map[string]int{}, nHooks: 1}
		w.nodes = append(w.nodes, hn)
		w.hooks = append(w.hooks, hn)
		opts = append(opts, zap.Hooks(func(e zapcore.Entry) error { hn.hookCalls[e.Message]++; return nil }))
		root = hn
	}
	if g.Chance(4) {
		in := &c5node{id: len(w.nodes), kind: c5Incr, kids: []*c5node{root}, enab: w.drawEnab(g)}
		widens := false
		for l := zapcore.DebugLevel; l <= zapcore.FatalLevel; l++ {
			if !w.nodeEnabled(root, l, w.val) && in.enab.enabled(l, w.val) {
				widens = true
			}
		}
		opts = append(opts, zap.IncreaseLevel(w.enabler(in.enab)))
		if !widens {
			w.nodes = append(w.nodes, in)
			w.hasIncr = true
			root = in
		}
		optIncrWidens, optIncr = widens, true
	}
	lg := zap.New(core, opts...)
	if optIncr && (len(errOut.Data) > 0) != optIncrWidens {
		c.Fail("C05: the IncreaseLevel option accepted a widening enabler or rejected a narrowing one", "widening=%v, error output %q; tree %s", optIncrWidens, errOut.Data, w.describe(root))
		return
	}
	// hook siblings: lg gets n further hooks one WithOptions at a time; two
	// siblings then add one hook each. Every hook of the chain fires for
	// entries through either sibling, a sibling's own hook only for its own.
	sib := g.Chance(3)
	sibHooks := map[string]map[string]int{} // hook name -> message -> calls
	var sibs []*zap.Logger
	if sib {
		mk := func(name string) zap.Option {
			sibHooks[name] = map[string]int{}
			return zap.Hooks(func(e zapcore.Entry) error { sibHooks[name][e.Message]++; return nil })
		}
		chain := g.Draw(7)
		for i := 0; i < chain; i++ {
			lg = lg.WithOptions(mk(fmt.Sprintf("chain%d", i)))
		}
		sibs = []*zap.Logger{lg.WithOptions(mk("sibA")), lg.WithOptions(mk("sibB"))}
		c.Describe("hook siblings over a chain of %d hooks", chain)
	}
	core = lg.Core()
	sug := lg.Sugar()
	sl := slog.New(zapslog.NewHandler(core))
	stdBridge := map[zapcore.Level]*log.Logger{}
	for _, lv := range []zapcore.Level{zapcore.DebugLevel, zapcore.InfoLevel, zapcore.WarnLevel, zapcore.ErrorLevel} {
		sl, err := zap.NewStdLogAt(lg, lv)
		if err != nil {
			c.Fail("C05: harness: NewStdLogAt refused a named level", "%v", err)
			return
		}
		stdBridge[lv] = sl
	}
	// the gRPC adapter, one time in three built with WithDebug(): its Print
	// family then logs at Debug level, everything else as before
	grpcDebug := g.Chance(3)
	gl := zapgrpc.NewLogger(lg)
	if grpcDebug {
		gl = zapgrpc.NewLogger(lg, zapgrpc.WithDebug())
		c.Describe("grpc adapter built WithDebug()")
		c.R.Probe("gRPC adapter built WithDebug()")
	}

	nTasks := 1
	if g.Chance(3) {
		nTasks = 2 + g.Draw(2)
	}
	maxOps := 10
	if c.Tier == "thorough" {
		maxOps = 24
	}
	opN := 0
	progs := make([][]*c5op, nTasks)
	for t := range progs {
		n := 1 + g.Draw(maxOps)
		for i := 0; i < n; i++ {
			op := &c5op{}
			switch g.Weighted(6, 2, 2) {
			case 0:
				op.kind = 0
				if g.Chance(4) {
					op.level = zapcore.Level(int8(g.Draw(256) - 128))
				} else {
					op.level = c5interesting[g.Draw(len(c5interesting))]
				}
				op.front = g.Draw(c5nFront)
				opN++
				op.msg = fmt.Sprintf("op%d", opN)
			case 1:
				op.kind = 1
				op.level = c5interesting[g.Draw(len(c5interesting))]
			case 2:
				op.kind = 2
				op.atom = g.Draw(nAtoms)
				if g.Chance(5) {
					op.level = c5interesting[g.Draw(len(c5interesting))]
				} else {
					op.level = zapcore.Level(g.Draw(9) - 2)
				}
				if op.level >= zapcore.DebugLevel && op.level <= zapcore.FatalLevel && g.Chance(3) {
					op.via = 1 + g.Draw(5)
				}
			}
			progs[t] = append(progs[t], op)
		}
	}
	c.Describe("tree=%s atoms=%v dev=%v tasks=%d policy=%s", w.describe(root), w.val, development, nTasks, r.Policy)
	for t, p := range progs {
		var b strings.Builder
		fmt.Fprintf(&b, "t%d:", t)
		for _, op := range p {
			switch op.kind {
			case 0:
				fmt.Fprintf(&b, " log(%d,fe%d)", op.level, op.front)
			case 1:
				fmt.Fprintf(&b, " query(%d)", op.level)
			case 2:
				fmt.Fprintf(&b, " set(a%d=%d)", op.atom, op.level)
			}
		}
		c.Describe("%s", b.String())
	}

	// ---- executing one log call through the drawn front end ----
	doLog := func(op *c5op) (effective zapcore.Level, issued bool) {
		l := op.level
		field := zap.Object("o", c5marsh{w, op.msg})
		switch op.front {
		case c5feLog:
			if sib {
				// (by the last digit of the message: by its length, as it was, the
				// first sibling was only used from the tenth operation on)
				op.sib = 1 + int(op.msg[len(op.msg)-1])%2
				sibs[op.sib-1].Log(l, op.msg, field)
			} else {
				lg.Log(l, op.msg, field)
			}
		case c5feCheck:
			if ce := lg.Check(l, op.msg); ce != nil {
				ce.Write(field)
			}
		case c5feSugarW:
			sug.Logw(l, op.msg, "o", c5marsh{w, op.msg})
		case c5feSugarF:
			sug.Logf(l, "%s", op.msg)
		case c5feSlog:
			// slog front end: four named levels only
			var sv slog.Level
			switch {
			case l <= zapcore.DebugLevel:
				l, sv = zapcore.DebugLevel, slog.LevelDebug
			case l == zapcore.InfoLevel:
				sv = slog.LevelInfo
			case l == zapcore.WarnLevel:
				sv = slog.LevelWarn
			default:
				l, sv = zapcore.ErrorLevel, slog.LevelError
			}
			sl.Log(context.Background(), sv, op.msg, slog.Any("o", c5marsh{w, op.msg}))
		case c5feStd:
			// a *log.Logger from NewStdLogAt, created when the logger was built
			// (whatever the levels were then): it logs at its fixed level, under
			// the filters in force now
			switch {
			case l <= zapcore.DebugLevel:
				l = zapcore.DebugLevel
			case l >= zapcore.ErrorLevel:
				l = zapcore.ErrorLevel
			}
			if nTasks > 1 {
				lg.Log(l, op.msg, field) // (a std logger holds its own lock while it writes: not shared between tasks)
				break
			}
			stdBridge[l].Print(op.msg)
		case c5feSugarNamed:
			// the level-named sugared methods, in their four styles
			style := 0
			for _, ch := range []byte(op.msg) {
				style += int(ch)
			}
			style %= 4
			obj := c5marsh{w, op.msg}
			switch {
			case l <= zapcore.DebugLevel:
				l = zapcore.DebugLevel
				switch style {
				case 0:
					sug.Debugw(op.msg, "o", obj)
				case 1:
					sug.Debugf("%s", op.msg)
				case 2:
					sug.Debugln(op.msg)
				default:
					sug.Debug(op.msg)
				}
			case l == zapcore.InfoLevel:
				switch style {
				case 0:
					sug.Infow(op.msg, "o", obj)
				case 1:
					sug.Infof("%s", op.msg)
				case 2:
					sug.Infoln(op.msg)
				default:
					sug.Info(op.msg)
				}
			case l == zapcore.WarnLevel:
				switch style {
				case 0:
					sug.Warnw(op.msg, "o", obj)
				case 1:
					sug.Warnf("%s", op.msg)
				case 2:
					sug.Warnln(op.msg)
				default:
					sug.Warn(op.msg)
				}
			default:
				l = zapcore.ErrorLevel
				switch style {
				case 0:
					sug.Errorw(op.msg, "o", obj)
				case 1:
					sug.Errorf("%s", op.msg)
				case 2:
					sug.Errorln(op.msg)
				default:
					sug.Error(op.msg)
				}
			}
		case c5feGrpc:
			switch {
			case l <= zapcore.InfoLevel:
				l = zapcore.InfoLevel
				variant := (int(op.level)&7 + len(op.msg)) % 6
				if variant >= 3 && grpcDebug {
					l = zapcore.DebugLevel
				}
				switch variant {
				case 0:
					gl.Info(op.msg)
				case 1:
					gl.Infoln(op.msg)
				case 2:
					gl.Infof("%s", op.msg)
				case 3:
					gl.Println(op.msg)
				case 4:
					gl.Print(op.msg)
				default:
					gl.Printf("%s", op.msg)
				}
			case l == zapcore.WarnLevel:
				switch int(op.front+len(op.msg)) % 3 {
				case 0:
					gl.Warning(op.msg)
				case 1:
					gl.Warningln(op.msg)
				default:
					gl.Warningf("%s", op.msg)
				}
			default:
				l = zapcore.ErrorLevel
				switch len(op.msg) % 3 {
				case 0:
					gl.Error(op.msg)
				case 1:
					gl.Errorln(op.msg)
				default:
					gl.Errorf("%s", op.msg)
				}
			}
		}
		return l, true
	}

	// observation: which leaves hold an entry with this message, how often
	received := func(msg string) map[int]int {
		out := map[int]int{}
		for _, lf := range w.leaves {
			if lf.logs != nil {
				out[lf.id] = lf.logs.FilterMessage(msg).Len()
			} else {
				data := lf.sink.Data
				if lf.rec != nil {
					data = lf.rec.Bytes()
				}
				out[lf.id] = strings.Count(string(data), `"msg":"`+msg+`"`)
			}
		}
		return out
	}
	sinkWrites := func() int {
		n := 0
		for _, lf := range w.leaves {
			if lf.sink != nil {
				n += lf.sink.Writes
			}
		}
		return n
	}

	// judge one log op against the set of valuations possibly in force
	delivered, suppressed := 0, 0
	nTasksIsOne := nTasks == 1
	judge := func(op *c5op, l zapcore.Level, vals [][]zapcore.Level) bool {
		got := received(op.msg)
		must := map[int]bool{}
		may := map[int]bool{}
		hookMust, hookMay := map[int]bool{}, map[int]bool{}
		for i, val := range vals {
			lv, hk := map[int]bool{}, map[int]bool{}
			w.deliver(root, l, val, lv, hk)
			if i == 0 {
				for k := range lv {
					must[k] = true
				}
				for k := range hk {
					hookMust[k] = true
				}
			} else {
				for k := range must {
					if !lv[k] {
						delete(must, k)
					}
				}
				for k := range hookMust {
					if !hk[k] {
						delete(hookMust, k)
					}
				}
			}
			for k := range lv {
				may[k] = true
			}
			for k := range hk {
				hookMay[k] = true
			}
		}
		total := 0
		for _, lf := range w.leaves {
			n := got[lf.id]
			total += n
			switch {
			case n > 1:
				c.Fail("C05: an entry was delivered to a destination more than once", "%s level %d: leaf %d received it %d times; tree %s", op.msg, l, lf.id, n, w.describe(root))
				return false
			case n == 1 && !may[lf.id]:
				c.Fail("C05: an entry reached a destination whose path does not enable its level", "%s level %d (front end %d): leaf %d (%s) received it; atomics %v; tree %s", op.msg, l, op.front, lf.id, lf.enab, vals, w.describe(root))
				return false
			case n == 0 && must[lf.id]:
				c.Fail("C05: an entry did not reach a destination whose whole path enables its level", "%s level %d (front end %d): leaf %d (%s) did not receive it; atomics %v; tree %s", op.msg, l, op.front, lf.id, lf.enab, vals, w.describe(root))
				return false
			}
		}
		for _, h := range w.hooks {
			n := h.hookCalls[op.msg]
			switch {
			case n > h.nHooks:
				c.Fail("C05: a hook fired more than once for one entry", "%s: the %d hooks of node %d fired %d times", op.msg, h.nHooks, h.id, n)
				return false
			case n >= 1 && !hookMay[h.id]:
				sig := "C05: a hook fired for an entry its wrapped core did not accept"
				if c.known(sig) {
					continue
				}
				c.Fail(sig, "%s level %d: hook node %d fired although nothing below it received the entry; atomics %v; tree %s", op.msg, l, h.id, vals, w.describe(root))
				return false
			case n == h.nHooks && h.hookWho != nil && h.hookWho[op.msg] != 1<<h.nHooks-1:
				c.Fail("C05: a hook did not fire for an entry its wrapped core accepted", "%s: the %d hooks of node %d fired %d times in all, but not each of them once (fired: bit set %b)", op.msg, h.nHooks, h.id, n, h.hookWho[op.msg])
				return false
			case n < h.nHooks && hookMust[h.id]:
				c.Fail("C05: a hook did not fire for an entry its wrapped core accepted", "%s level %d: the %d hooks of node %d fired %d times; tree %s", op.msg, l, h.nHooks, h.id, n, w.describe(root))
				return false
			}
		}
		if sib && nTasksIsOne && op.sib != 0 {
			accepted := len(must) > 0
			names := make([]string, 0, len(sibHooks))
			for name := range sibHooks {
				names = append(names, name)
			}
			sort.Strings(names)
			for _, name := range names {
				n := sibHooks[name][op.msg]
				want := 0
				if accepted && (strings.HasPrefix(name, "chain") || (name == "sibA" && op.sib == 1) || (name == "sibB" && op.sib == 2)) {
					want = 1
				}
				if n != want {
					c.Fail("C05: hooks of loggers derived from one hooked logger are not kept apart", "%s through sibling %d (accepted=%v): hook %s fired %d times, expected %d", op.msg, op.sib, accepted, name, n, want)
					return false
				}
			}
		}
		if len(may) == 0 {
			suppressed++
			if w.marsh[op.msg] != 0 {
				c.Fail("C05: a disabled entry caused field marshaling", "%s level %d: %d MarshalLogObject calls", op.msg, l, w.marsh[op.msg])
				return false
			}
		}
		if total > 0 {
			delivered++
		}
		mask := uint64(0)
		for k := range got {
			if got[k] > 0 {
				mask |= 1 << uint(k%60)
			}
		}
		c.MixState(uint64(uint8(l))<<32 | mask)
		return true
	}

	// queries (sequential member only: exact valuation)
	query := func(l zapcore.Level) bool {
		lv, hk := map[int]bool{}, map[int]bool{}
		someLeaf := w.deliver(root, l, w.val, lv, hk)
		en := core.Enabled(l)
		if !en && someLeaf {
			c.Fail("C05: Enabled(l) is false although an entry at l would be delivered", "level %d; atomics %v; tree %s", l, w.val, w.describe(root))
			return false
		}
		if !w.hasIncr && en != someLeaf {
			c.Fail("C05: Enabled(l) disagrees with delivery", "level %d: Enabled=%v, some destination receives it=%v; atomics %v; tree %s", l, en, someLeaf, w.val, w.describe(root))
			return false
		}
		// gRPC V for the four gRPC severities
		for gv, zl := range []zapcore.Level{zapcore.InfoLevel, zapcore.WarnLevel, zapcore.ErrorLevel, zapcore.FatalLevel} {
			if gl.V(gv) != core.Enabled(zl) {
				c.Fail("C05: the gRPC adapter's V disagrees with Enabled", "V(%d)=%v, Enabled(%s)=%v", gv, gl.V(gv), zl, core.Enabled(zl))
				return false
			}
		}
		// reported minimum level
		for what, m := range map[string]zapcore.Level{"Logger.Level": lg.Level(), "LevelOf(core)": zapcore.LevelOf(core), "SugaredLogger.Level": sug.Level()} {
			anyNamed := false
			lowestNamed := zapcore.InvalidLevel
			for x := zapcore.FatalLevel; x >= zapcore.DebugLevel; x-- {
				if core.Enabled(x) {
					anyNamed = true
					lowestNamed = x
				}
			}
			ok := false
			if m == zapcore.InvalidLevel && !anyNamed {
				ok = true
			}
			if m != zapcore.InvalidLevel && core.Enabled(m) && (!anyNamed || m <= lowestNamed) {
				ok = true
			}
			if !ok {
				sig := "C05: the reported minimum level is not the lowest enabled level"
				if !anyNamed && m == zapcore.FatalLevel {
					sig = "C05: a tee whose branches enable nothing reports Fatal as its level instead of the invalid level"
				}
				if c.known(sig) {
					continue
				}
				c.Fail(sig, "%s = %d, Enabled(%d)=%v, lowest enabled named level = %d (any named enabled: %v); atomics %v; tree %s", what, m, m, core.Enabled(m), lowestNamed, anyNamed, w.val, w.describe(root))
				return false
			}
		}
		return true
	}

	// ---- execution ----
	var ev int64
	type setEv struct {
		atom     int
		level    zapcore.Level
		inv, ret int64
	}
	var sets []*setEv
	initial := append([]zapcore.Level(nil), w.val...)
	for t := range progs {
		prog := progs[t]
		r.Go(fmt.Sprintf("t%d", t), func() {
			for _, op := range prog {
				switch op.kind {
				case 0:
					before := sinkWrites()
					lazyBefore := map[int]int{}
					for _, ln := range w.nodes {
						if ln.kind == c5Lazy {
							lazyBefore[ln.id] = ln.lazyMarsh
						}
					}
					ev++
					op.inv = ev
					l, _ := doLog(op)
					ev++
					op.ret = ev
					if nTasks == 1 {
						// "a disabled entry causes no field marshaling": judged for
						// entries that are delivered nowhere. (That a lazy-with
						// node under a branch that declines the entry stays
						// unevaluated while other branches accept it is how zap
						// happens to work - an extra Sync of the tee, say, would
						// evaluate it - and not something the statement asks.)
						nowhere := !w.deliver(root, l, w.val, map[int]bool{}, map[int]bool{})
						for _, ln := range w.nodes {
							if ln.kind != c5Lazy || ln.underLazy || !nowhere {
								continue
							}
							// the wrapped core's own report decides (an increase-level
							// node reports its own enabler only, see "not judged")
							if !w.nodeEnabled(ln.kids[0], l, w.val) && ln.lazyMarsh != lazyBefore[ln.id] {
								c.Fail("C05: a disabled entry caused field marshaling", "%s level %d: the core wrapped by lazy-with node %d does not enable it, yet the deferred fields were marshaled; atomics %v; tree %s", op.msg, l, ln.id, w.val, w.describe(root))
								return
							}
						}
						if !judge(op, l, [][]zapcore.Level{w.val}) {
							return
						}
						lv, hk := map[int]bool{}, map[int]bool{}
						if !w.deliver(root, l, w.val, lv, hk) && sinkWrites() != before {
							c.Fail("C05: a disabled entry caused sink activity", "%s level %d", op.msg, l)
							return
						}
					}
					op.level = l
				case 1:
					if nTasks == 1 {
						if !query(op.level) {
							return
						}
					} else {
						_ = core.Enabled(op.level)
						_ = lg.Level()
					}
				case 2:
					ev++
					s := &setEv{atom: op.atom, level: op.level, inv: ev}
					sets = append(sets, s)
					c5set(w.atoms[op.atom], op.level, op.via)
					ev++
					s.ret = ev
					if nTasks == 1 {
						w.val[op.atom] = op.level
						if got := w.atoms[op.atom].Level(); got != op.level {
							c.Fail("C05: AtomicLevel does not hold the level just set", "set %d, read %d", op.level, got)
							return
						}
					}
				}
				zsim.Yield(zsim.KOp, nil)
			}
		})
	}
	c.Nontrivial = nTasks >= 2 && len(w.nodes) >= 3
	c.Sim()

	if nTasks == 1 && !r.Failed() {
		// a sugared logger whose core is widened after the fact: WithOptions with
		// WrapCore puts a tee of the old core and a new, more verbose destination
		// in its place. Whatever the old core enables, the new branch receives
		// every entry its own level enables, through every sugared family.
		xcore, xlogs := observer.New(zapcore.DebugLevel)
		sx := lg.Sugar().WithOptions(zap.WrapCore(func(old zapcore.Core) zapcore.Core { return zapcore.NewTee(old, xcore) }))
		n := 0
		for _, l := range []zapcore.Level{zapcore.DebugLevel, zapcore.InfoLevel, zapcore.WarnLevel, zapcore.ErrorLevel} {
			sx.Log(l, "widened")
			sx.Logf(l, "%s", "widened")
			sx.Logw(l, "widened", "k", 1)
			sx.Logln(l, "widened")
			n += 4
		}
		sx.Debug("widened")
		sx.Infow("widened", "k", 1)
		n += 2
		if got := xlogs.Len(); got != n {
			c.Fail("C05: an entry did not reach a destination whose whole path enables its level", "a branch added by SugaredLogger.WithOptions(WrapCore(tee(old, new))) at Debug level received %d of %d sugared entries at Debug..Error; tree %s", got, n, w.describe(root))
			return
		}
		if !sx.Desugar().Core().Enabled(zapcore.DebugLevel) || sx.Level() > zapcore.DebugLevel {
			c.Fail("C05: reported levels disagree with delivery", "after widening to Debug: Core().Enabled(debug)=%v, SugaredLogger.Level()=%s", sx.Desugar().Core().Enabled(zapcore.DebugLevel), sx.Level())
			return
		}
		r.Probe("sugared logger widened by WithOptions(WrapCore)")
	}
	if nTasks == 1 && !r.Failed() && g.Chance(3) {
		c05budget(c)
	}
	if nTasks > 1 {
		// interval rule: for each log call the valuations possibly in force
		// between its invocation and its return
		for _, p := range progs {
			for _, op := range p {
				if op.kind != 0 || op.ret == 0 {
					continue
				}
				cand := make([][]zapcore.Level, nAtoms)
				for a := 0; a < nAtoms; a++ {
					// last set that returned before the call was invoked (by return order)
					var last *setEv
					for _, s := range sets {
						if s.atom == a && s.ret != 0 && s.ret < op.inv && (last == nil || s.ret > last.ret) {
							last = s
						}
					}
					// any set that overlaps [last.inv .. op.ret] may determine the value
					lo := int64(0)
					if last != nil {
						lo = last.inv
						cand[a] = append(cand[a], last.level)
					} else {
						cand[a] = append(cand[a], initial[a])
					}
					for _, s := range sets {
						if s.atom != a || s == last {
							continue
						}
						if s.inv < op.ret && (s.ret == 0 || s.ret > lo) {
							cand[a] = append(cand[a], s.level)
						}
					}
				}
				var vals [][]zapcore.Level
				var rec func(a int, cur []zapcore.Level)
				rec = func(a int, cur []zapcore.Level) {
					if a == nAtoms {
						vals = append(vals, append([]zapcore.Level(nil), cur...))
						return
					}
					for _, v := range cand[a] {
						rec(a+1, append(cur, v))
					}
				}
				rec(0, nil)
				if len(vals) > 1 {
					r.Probe("a log call overlapped a level change")
				}
				if !judge(op, op.level, vals) {
					return
				}
			}
		}
	}
	if len(w.nodes) >= 3 && delivered > 0 && suppressed > 0 {
		c.Nontrivial = true
	}
	_ = unsafe.Pointer(nil)
}

// c05budget: a destination behind a dynamic level and a sampler with a small
// budget, next to a sibling with a level of its own. The entries the
// destination receives are the first N of each level and message among those
// its level enabled when they were logged: entries it did not enable reach it
// in no form, whatever the sibling enables and whichever way they entered
// (DPanic entries are checked against the cores even when the logger's own
// level test would have turned them away).
func c05budget(c *Ctx) {
	g := c.G
	levels := []zapcore.Level{zapcore.DebugLevel, zapcore.InfoLevel, zapcore.WarnLevel, zapcore.ErrorLevel, zapcore.DPanicLevel}
	destLevel := zap.NewAtomicLevelAt(levels[g.Draw(5)])
	sibLevel := zap.NewAtomicLevelAt(levels[g.Draw(5)])
	dest, dlogs := observer.New(destLevel)
	sib, _ := observer.New(sibLevel)
	n := 1 + g.Draw(3)
	samp := zapcore.NewSamplerWithOptions(dest, time.Hour, n, 0)
	var core zapcore.Core
	shape := g.Draw(4)
	switch shape {
	case 0:
		core = zapcore.NewTee(sib, samp)
	case 1:
		core = samp
	case 2:
		core = zapcore.NewTee(samp, sib)
	default:
		core = zapcore.NewTee(sib, zapcore.NewTee(samp))
	}
	lg := zap.New(core)
	type key struct {
		l zapcore.Level
		m string
	}
	count := map[key]int{}
	var want, hist []string
	for i, nOps := 0, 8+g.Draw(20); i < nOps; i++ {
		switch g.Weighted(6, 2, 1) {
		case 0:
			l, m := levels[g.Draw(5)], pick(g, "budget-a", "budget-b")
			hist = append(hist, fmt.Sprintf("%s(%s)", l, m))
			if destLevel.Enabled(l) {
				k := key{l, m}
				count[k]++
				if count[k] <= n {
					want = append(want, fmt.Sprintf("%s %s", l, m))
				}
			}
			if g.Chance(2) {
				lg.Log(l, m)
			} else if ce := lg.Check(l, m); ce != nil {
				ce.Write()
			}
		case 1:
			l := levels[g.Draw(5)]
			destLevel.SetLevel(l)
			hist = append(hist, fmt.Sprintf("dest:=%s", l))
		case 2:
			l := levels[g.Draw(5)]
			sibLevel.SetLevel(l)
			hist = append(hist, fmt.Sprintf("sibling:=%s", l))
		}
	}
	// an entry that was checked while its level was enabled and is written after
	// the level has been raised (a CheckedEntry held for a moment): the cores
	// that accepted it at the check receive it - that is what having accepted
	// means
	if g.Chance(2) {
		odest, ologs := observer.New(sibLevel)
		hooks := 0
		olg := zap.New(zapcore.NewTee(zapcore.RegisterHooks(odest, func(zapcore.Entry) error { hooks++; return nil }), zapcore.NewNopCore()))
		sibLevel.SetLevel(zapcore.InfoLevel)
		ce := olg.Check(zapcore.InfoLevel, "checked, then the level was raised")
		sibLevel.SetLevel(zapcore.ErrorLevel)
		if ce != nil {
			ce.Write()
		}
		if ologs.Len() != 1 || hooks != 1 {
			c.Fail("C05: an entry accepted by a core at the check did not reach it at the write", "Check at info with the level at info, SetLevel(error), Write: the destination recorded %d entries, its hook fired %d times", ologs.Len(), hooks)
			return
		}
		c.R.Probe("level raised between Check and Write")
	}
	var got []string
	for _, e := range dlogs.All() {
		got = append(got, fmt.Sprintf("%s %s", e.Level, e.Message))
	}
	c.R.Probe("destination behind a dynamic level and a small sampling budget")
	if strings.Join(got, "|") != strings.Join(want, "|") {
		c.Fail("C05: a destination behind a sampler did not receive the first entries its level enabled", "shape %d, first %d per level and message; history %v; destination received %v, expected %v", shape, n, hist, got, want)
	}
}
