package props

import (
	"encoding/json"
	"fmt"
	"os"
	"os/exec"
	"path/filepath"
	"strings"
	"time"

	"go.uber.org/zap"
	"go.uber.org/zap/zapcore"
)

// Scenario B of C06: the default terminal actions in a real process. The
// parent (a simulation worker) re-executes its own binary as a child that
// builds the drawn configuration over real files — including
// BufferedWriteSyncer over *os.File — and makes the terminal call; the parent
// observes the exit status from outside and reads the files. The child is
// single-threaded and entirely determined by the spec, so the run replays.

type c06childLeaf struct {
	Path     string `json:"path"`
	Level    int8   `json:"level"`
	Buffered int    `json:"buffered"` // 0 = Lock(file)
}

type c06childSpec struct {
	Leaves      []c06childLeaf `json:"leaves"`
	Nop         bool           `json:"nop"`
	DropAll     bool           `json:"drop_all"`
	Development bool           `json:"development"`
	PanicHook   int            `json:"panic_hook"` // unset, nil, noop
	FatalHook   int            `json:"fatal_hook"`
	Front       int            `json:"front"`
	Level       int8           `json:"lvl"`
	Pre         int            `json:"pre"`
}

const c06childMsg = "terminal-entry"

// C06ChildMain runs in the child process (see TestC06Child).
func C06ChildMain(specJSON string) {
	var sp c06childSpec
	if err := json.Unmarshal([]byte(specJSON), &sp); err != nil {
		fmt.Fprintln(os.Stderr, "bad spec:", err)
		os.Exit(97)
	}
	var cores []zapcore.Core
	for _, lf := range sp.Leaves {
		f, err := os.OpenFile(lf.Path, os.O_WRONLY|os.O_APPEND|os.O_CREATE, 0o644)
		if err != nil {
			fmt.Fprintln(os.Stderr, err)
			os.Exit(97)
		}
		var ws zapcore.WriteSyncer = zapcore.Lock(f)
		if lf.Buffered > 0 {
			ws = &zapcore.BufferedWriteSyncer{WS: f, Size: lf.Buffered, FlushInterval: time.Hour}
		}
		cores = append(cores, zapcore.NewCore(zapcore.NewJSONEncoder(encCfg()), ws, zapcore.Level(lf.Level)))
	}
	var core zapcore.Core
	switch {
	case sp.Nop:
		core = zapcore.NewNopCore()
	case sp.DropAll:
		core = zapcore.NewSamplerWithOptions(cores[0], time.Hour, 0, 0)
	default:
		core = zapcore.NewTee(cores...)
	}
	var opts []zap.Option
	if sp.Development {
		opts = append(opts, zap.Development())
	}
	switch sp.PanicHook {
	case 1:
		opts = append(opts, zap.WithPanicHook(nil))
	case 2:
		opts = append(opts, zap.WithPanicHook(zapcore.WriteThenNoop))
	}
	switch sp.FatalHook {
	case 1:
		opts = append(opts, zap.WithFatalHook(nil))
	case 2:
		opts = append(opts, zap.OnFatal(zapcore.WriteThenNoop))
	}
	lg := zap.New(core, opts...)
	for i := 0; i < sp.Pre; i++ {
		lg.Warn(fmt.Sprintf("pre-%d", i))
	}
	c06call(lg, sp.Front, zapcore.Level(sp.Level), c06childMsg)
	// reaching this point means control was not lost
	fmt.Fprintln(os.Stderr, "CHILD-RETURNED")
	os.Exit(96)
}

func runC06child(c *Ctx) {
	g := c.G
	dir := os.Getenv("ZSIM_TMP")
	if dir == "" {
		dir = os.TempDir()
	}
	dir, err := os.MkdirTemp(dir, "c06child-")
	if err != nil {
		panic(err)
	}
	defer os.RemoveAll(dir)
	sp := c06childSpec{Development: g.Chance(2), PanicHook: g.Draw(3), FatalHook: g.Draw(3), Pre: g.Draw(3)}
	shape := g.Weighted(1, 4, 3, 2)
	nLeaves := 1
	switch shape {
	case 0:
		sp.Nop = true
		nLeaves = 0
	case 2:
		nLeaves = 2
	case 3:
		sp.DropAll = true
	}
	for i := 0; i < nLeaves; i++ {
		lf := c06childLeaf{Path: filepath.Join(dir, fmt.Sprintf("out%d.log", i))}
		lf.Level = int8([]zapcore.Level{zapcore.DebugLevel, zapcore.InfoLevel, zapcore.ErrorLevel, zapcore.DPanicLevel, zapcore.PanicLevel, zapcore.FatalLevel, zapcore.FatalLevel + 1}[g.Weighted(3, 3, 2, 1, 1, 1, 2)])
		if g.Chance(2) {
			lf.Buffered = pick(g, 64, 4096, 256*1024)
		}
		sp.Leaves = append(sp.Leaves, lf)
	}
	sp.Front = g.Draw(c6nFront)
	lvl := []zapcore.Level{zapcore.DPanicLevel, zapcore.PanicLevel, zapcore.FatalLevel}[g.Draw(3)]
	if sp.Front >= c6Grpc {
		lvl = zapcore.FatalLevel
	}
	sp.Level = int8(lvl)
	js, _ := json.Marshal(sp)
	c.Describe("member=real-child-process spec=%s", js)
	c.MixState(uint64(shape)<<24 | uint64(sp.PanicHook)<<20 | uint64(sp.FatalHook)<<16 | uint64(sp.Front)<<8 | uint64(uint8(lvl)))
	c.Nontrivial = true
	c.Fault("real-process-termination")

	stderrPath := filepath.Join(dir, "stderr")
	ef, _ := os.Create(stderrPath)
	cmd := exec.Command(os.Args[0], "-test.run", "^TestC06Child$")
	cmd.Env = append(os.Environ(), "ZSIM_C06_CHILD="+string(js), "GOMAXPROCS=2")
	cmd.Stderr = ef
	cmd.Stdout = ef
	werr := cmd.Run()
	ef.Close()
	code := 0
	if ee, ok := werr.(*exec.ExitError); ok {
		code = ee.ExitCode()
	} else if werr != nil {
		panic(werr)
	}
	eb, _ := os.ReadFile(stderrPath)
	stderr := string(eb)
	desc := fmt.Sprintf("real child: front end %s at %s, spec %s", c6frontNames[sp.Front], lvl, js)
	wantPanic := lvl == zapcore.PanicLevel || (lvl == zapcore.DPanicLevel && sp.Development)
	switch {
	case code == 97:
		panic("c06 child set-up failed: " + stderr)
	case lvl == zapcore.FatalLevel:
		if code != 1 {
			sig := "C06: a Fatal-level call did not exit the process with status 1"
			if sp.Front == c6Grpcln {
				sig = "C06: zapgrpc Fatalln does not exit when the Fatal level is disabled"
			}
			if !c.known(sig) {
				c.Fail(sig, "%s: exit status %d, stderr %q", desc, code, clipS(stderr))
				return
			}
		}
	case wantPanic:
		if code != 2 || !strings.Contains(stderr, "panic: "+c06childMsg) {
			c.Fail("C06: a Panic-level call did not panic", "%s: exit status %d, stderr %q", desc, code, clipS(stderr))
			return
		}
	default:
		if code != 96 {
			c.Fail("C06: DPanic outside development mode ran a terminal action", "%s: exit status %d, stderr %q", desc, code, clipS(stderr))
			return
		}
		return // control was not lost, nothing was flushed by an exit path: not judged
	}
	// the files as the dead process left them
	for _, lf := range sp.Leaves {
		b, _ := os.ReadFile(lf.Path)
		n := strings.Count(string(b), `"msg":"`+c06childMsg)
		accepts := !sp.DropAll && !sp.Nop && int8(lvl) >= lf.Level
		switch {
		case accepts && n != 1:
			if len(c.Known) > 0 {
				continue
			}
			c.Fail("C06: control was lost before the entry was written and synced to an accepting sink", "%s: file %s (threshold %d, buffered %d) holds the terminal entry %d times after the process died; content %q", desc, filepath.Base(lf.Path), lf.Level, lf.Buffered, n, clipS(string(b)))
			return
		case !accepts && n != 0:
			c.Fail("C06: the terminal entry reached a sink that does not enable its level", "%s: file %s", desc, filepath.Base(lf.Path))
			return
		}
		if len(b) > 0 && b[len(b)-1] != '\n' {
			c.Fail("C06: the synced part of a sink ends in a torn line", "%s: file %s", desc, filepath.Base(lf.Path))
			return
		}
	}
}
