package props

import (
	"encoding/binary"
	"encoding/json"
	"fmt"
	"hash/fnv"
	"os"
	"strconv"
	"strings"
	"testing"
	"time"

	"verif/zsim"
)

// ReplayFile is the replay artefact: everything needed to reproduce one
// violation in a fresh process, plus a readable account of it.
type ReplayFile struct {
	Property  string         `json:"property"`
	Tier      string         `json:"tier"`
	BaseSeed  uint64         `json:"base_seed"`
	RunIndex  int64          `json:"run_index"`
	RunSeed   uint64         `json:"run_seed"`
	Tape      zsim.TapeData  `json:"tape"` // minimised
	TapeLen   [3]int         `json:"tape_len_before_after_attempts"`
	Signature string         `json:"signature"`
	Detail    string         `json:"detail"`
	Config    []string       `json:"config_and_program"`
	Trace     string         `json:"trace"`
	Race      bool           `json:"race_binary"`
	SeedOnly  bool           `json:"seed_only,omitempty"` // the tape is the PRNG stream of run_seed (not minimised)
	Repo      string         `json:"repo_state,omitempty"`
	Original  *zsim.TapeData `json:"original_tape,omitempty"`
	// the worker process that met the violation had executed these runs before
	// (run indices of the same base seed); WorkerFrom/WorkerStride let the
	// driver compute them. Prefix is set by the driver when the run does not
	// reproduce on its own: state of the code under test that outlives a run
	// (a package-level cache, a table filled on demand) is part of the history.
	WorkerFrom   int64   `json:"worker_from"`
	WorkerStride int64   `json:"worker_stride,omitempty"`
	Prefix       []int64 `json:"earlier_runs_of_the_process,omitempty"`
}

type WorkerOut struct {
	Property   string         `json:"property"`
	From, To   int64          `json:"-"`
	Runs       int64          `json:"runs"`
	Nontrivial int64          `json:"nontrivial_runs"`
	Steps      int64          `json:"steps"`
	Preempt    int64          `json:"preemptions"`
	SimNanos   int64          `json:"sim_nanos"`
	WallS      float64        `json:"wall_s"`
	Faults     map[string]int `json:"faults"`
	Probes     map[string]int `json:"probes"`
	Policies   map[string]int `json:"policies"`
	Known      map[string]int `json:"known"`
	Violations []ReplayFile   `json:"violations"`
	Samples    []any          `json:"samples"`
	FPFile     string         `json:"fp_file"`
	Distinct   int            `json:"distinct_in_worker"`
	LastIndex  int64          `json:"last_index"`
	Dirty      bool           `json:"dirty"` // worker stopped early because a violating run left goroutines behind
}

func envInt(name string, def int64) int64 {
	if s := os.Getenv(name); s != "" {
		v, err := strconv.ParseInt(s, 10, 64)
		if err == nil {
			return v
		}
	}
	return def
}

func envU64(name string, def uint64) uint64 {
	if s := os.Getenv(name); s != "" {
		v, err := strconv.ParseUint(s, 10, 64)
		if err == nil {
			return v
		}
	}
	return def
}

func propSeed(base uint64, id string) uint64 {
	h := fnv.New64a()
	h.Write([]byte(id))
	return zsim.Mix(base, h.Sum64())
}

// RunSeed is a pure function of (base seed, property, run index).
func RunSeed(base uint64, id string, i int64) uint64 { return zsim.Mix(propSeed(base, id), uint64(i)) }

func TestWorker(t *testing.T) {
	id := os.Getenv("ZSIM_PROP")
	if id == "" {
		t.Skip("ZSIM_PROP not set")
	}
	p := Props[id]
	if p == nil {
		fmt.Fprintf(os.Stderr, "unknown property %q\n", id)
		os.Exit(2)
	}
	tier := os.Getenv("ZSIM_TIER")
	if tier == "" {
		tier = "quick"
	}
	if rp := os.Getenv("ZSIM_REPLAY"); rp != "" {
		replay(t, p, rp, tier)
		return
	}
	base := envU64("ZSIM_BASE", 1)
	from, to := envInt("ZSIM_FROM", 0), envInt("ZSIM_TO", 1000)
	stride := envInt("ZSIM_STRIDE", 1)
	budget := time.Duration(envInt("ZSIM_BUDGET_MS", 1<<40)) * time.Millisecond
	maxViol := int(envInt("ZSIM_MAXVIOL", 3))
	outPath := os.Getenv("ZSIM_OUT")
	traceDir := os.Getenv("ZSIM_EVENTLOG") // determinism self-test: dump per-run digests
	raceLog := os.Getenv("ZSIM_RACELOG")   // path prefix given to GORACE log_path

	out := &WorkerOut{Property: id, Faults: map[string]int{}, Probes: map[string]int{}, Policies: map[string]int{}, Known: map[string]int{}}
	fps := map[uint64]struct{}{}
	sigs := map[string]bool{}
	start := time.Now()
	var evlog *os.File
	if traceDir != "" {
		evlog, _ = os.Create(traceDir)
		defer evlog.Close()
	}
	raceSize := raceLogSize(raceLog)
	var progress *os.File
	if pp := os.Getenv("ZSIM_PROGRESS"); pp != "" {
		progress, _ = os.Create(pp)
	}
	flush := func() {
		out.WallS = time.Since(start).Seconds()
		out.Distinct = len(fps)
		if outPath == "" {
			return
		}
		fpPath := outPath + ".fp"
		buf := make([]byte, 0, 8*len(fps))
		for k := range fps {
			buf = binary.LittleEndian.AppendUint64(buf, k)
		}
		os.WriteFile(fpPath+".tmp", buf, 0o644)
		os.Rename(fpPath+".tmp", fpPath)
		out.FPFile = fpPath
		js, _ := json.Marshal(out)
		os.WriteFile(outPath+".tmp", js, 0o644)
		os.Rename(outPath+".tmp", outPath)
	}
	for i := from; i < to; i += stride {
		if progress != nil {
			// announce the run before executing it: with GORACE=halt_on_error=1
			// the process dies inside the run that races
			var b [16]byte
			binary.LittleEndian.PutUint64(b[:], uint64(i))
			binary.LittleEndian.PutUint64(b[8:], RunSeed(base, id, i))
			progress.WriteAt(b[:], 0)
			if raceLog != "" && out.Runs%2000 == 1999 {
				flush()
			}
		}
		if out.Runs&15 == 0 && time.Since(start) > budget {
			break
		}
		seed := RunSeed(base, id, i)
		res := ExecOne(t, p, zsim.NewTape(seed), tier)
		out.Runs++
		out.LastIndex = i
		out.Steps += res.Steps
		out.Preempt += int64(res.Preempt)
		out.SimNanos += res.SimNanos
		out.Policies[res.Policy]++
		for k, v := range res.Faults {
			out.Faults[k] += v
		}
		for k, v := range res.Probes {
			out.Probes[k] += v
		}
		for _, k := range res.Known {
			out.Known[k]++
		}
		if res.Nontrivial {
			out.Nontrivial++
			fps[res.FP] = struct{}{}
		}
		if evlog != nil {
			vs := ""
			if res.Viol != nil {
				vs = res.Viol.Sig
			}
			fmt.Fprintf(evlog, "%d %016x %d %s\n", i, res.FP, res.Steps, vs)
		}
		if len(out.Samples) < 3 && res.Nontrivial && (out.Runs%7 == 1 || out.Runs > 20) {
			out.Samples = append(out.Samples, map[string]any{"run_index": i, "seed": seed, "case": res.Desc, "scheduler_steps": res.Steps, "preemptions": res.Preempt})
		}
		viol := res.Viol
		if zsim.RaceBuild && viol == nil {
			if n := raceLogSize(raceLog); n > raceSize {
				rep := raceLogRead(raceLog, raceSize)
				raceSize = n
				viol = &zsim.Violation{Sig: "data race: " + raceSig(rep), Detail: rep}
			}
		}
		if viol != nil {
			rf := ReplayFile{Property: id, Tier: tier, BaseSeed: base, RunIndex: i, RunSeed: seed, Signature: viol.Sig, Detail: viol.Detail, Config: res.Desc, Trace: viol.Trace, Race: zsim.RaceBuild, Tape: res.Tape}
			if !sigs[viol.Sig] && !strings.HasPrefix(viol.Sig, "data race") {
				sigs[viol.Sig] = true
				orig := res.Tape
				before := len(orig.Gen) + len(orig.Sched) + len(orig.Fault)
				min, attempts := Shrink(orig, viol.Sig, func(d zsim.TapeData) (string, zsim.TapeData) {
					rr := ExecOne(t, p, zsim.ReplayTape(d), tier)
					if rr.Viol == nil {
						return "", rr.Tape
					}
					return rr.Viol.Sig, rr.Tape
				}, 1500, 20*time.Second)
				// final run on the minimised tape for the readable account
				fr := ExecOne(t, p, zsim.ReplayTape(min), tier)
				if fr.Viol != nil && fr.Viol.Sig == viol.Sig {
					rf.Tape = fr.Tape
					rf.Detail, rf.Trace, rf.Config = fr.Viol.Detail, fr.Viol.Trace, fr.Desc
					rf.Original = &orig
					rf.TapeLen = [3]int{before, len(fr.Tape.Gen) + len(fr.Tape.Sched) + len(fr.Tape.Fault), attempts}
				}
			}
			rf.WorkerFrom, rf.WorkerStride = from, stride
			out.Violations = append(out.Violations, rf)
			if res.Abandoned > 0 || len(out.Violations) >= maxViol || zsim.RaceBuild {
				out.Dirty = res.Abandoned > 0
				break
			}
		}
	}
	flush()
	if outPath == "" {
		js, _ := json.MarshalIndent(out, "", " ")
		fmt.Println(string(js))
	}
}

func replay(t *testing.T, p *Prop, path, tier string) {
	b, err := os.ReadFile(path)
	if err != nil {
		fmt.Fprintln(os.Stderr, err)
		os.Exit(2)
	}
	var rf ReplayFile
	if err := json.Unmarshal(b, &rf); err != nil {
		fmt.Fprintln(os.Stderr, err)
		os.Exit(2)
	}
	if rf.Tier != "" {
		tier = rf.Tier
	}
	raceLog := os.Getenv("ZSIM_RACELOG")
	tape := zsim.ReplayTape(rf.Tape)
	if rf.SeedOnly {
		tape = zsim.NewTape(rf.RunSeed)
	}
	if out := os.Getenv("ZSIM_TAPEOUT"); out != "" {
		// the choices this execution consumed, written even if the testing
		// package ends the test early after a race report (minimisation of race
		// violations runs one process per candidate tape)
		defer func() {
			b, _ := json.Marshal(tape.Data())
			os.WriteFile(out, b, 0o644)
			for _, l := range lastDesc {
				fmt.Println("CASEX", l)
			}
		}()
	}
	for _, idx := range rf.Prefix {
		// the runs the worker process had executed before this one
		ExecOne(t, p, zsim.NewTape(RunSeed(rf.BaseSeed, rf.Property, idx)), tier)
	}
	res := ExecOne(t, p, tape, tier)
	viol := res.Viol
	if zsim.RaceBuild && viol == nil {
		if n := raceLogSize(raceLog); n > 0 {
			rep := raceLogRead(raceLog, 0)
			viol = &zsim.Violation{Sig: "data race: " + raceSig(rep), Detail: rep}
		}
	}
	for _, l := range res.Desc {
		fmt.Println("CASE", l)
	}
	if viol == nil {
		fmt.Println("REPLAY-RESULT none")
		return
	}
	fmt.Println("REPLAY-RESULT", viol.Sig)
	fmt.Println(viol.Detail)
	fmt.Println(viol.Trace)
	if viol.Sig == rf.Signature {
		fmt.Println("REPLAY-MATCH")
	}
}

func raceLogFile(prefix string) string {
	if prefix == "" {
		return ""
	}
	return fmt.Sprintf("%s.%d", prefix, os.Getpid())
}

func raceLogSize(prefix string) int64 {
	if prefix == "" {
		return 0
	}
	st, err := os.Stat(raceLogFile(prefix))
	if err != nil {
		return 0
	}
	return st.Size()
}

func raceLogRead(prefix string, from int64) string {
	b, err := os.ReadFile(raceLogFile(prefix))
	if err != nil || int64(len(b)) < from {
		return ""
	}
	s := string(b[from:])
	if len(s) > 6000 {
		s = s[:6000]
	}
	return s
}

// raceSig normalises a race report to the function names of the top frames of
// both stacks that belong to zap (or the first frames if none does).
func raceSig(rep string) string {
	var tops []string
	lines := strings.Split(rep, "\n")
	for i := 0; i < len(lines); i++ {
		l := lines[i]
		if strings.HasPrefix(l, "Write at ") || strings.HasPrefix(l, "Read at ") || strings.HasPrefix(l, "Previous write at ") || strings.HasPrefix(l, "Previous read at ") {
			kind := strings.Fields(l)[0]
			if kind == "Previous" {
				kind = "previous " + strings.Fields(l)[1]
			}
			fn := ""
			for j := i + 1; j < len(lines) && strings.TrimSpace(lines[j]) != ""; j++ {
				f := strings.TrimSpace(lines[j])
				if strings.HasPrefix(f, "go.uber.org/zap") {
					fn = f
					break
				}
			}
			if fn == "" && i+1 < len(lines) {
				fn = strings.TrimSpace(lines[i+1])
			}
			if k := strings.Index(fn, "("); k > 0 {
				fn = fn[:k]
			}
			tops = append(tops, strings.ToLower(kind)+" in "+fn)
		}
		if len(tops) == 2 {
			break
		}
	}
	return strings.Join(tops, " / ")
}

func TestMeta(t *testing.T) {
	p := Props[os.Getenv("ZSIM_PROP")]
	if p == nil {
		t.Skip()
	}
	js, _ := json.Marshal(map[string]any{"rule": p.Rule, "real": p.Real, "stub": p.Stub})
	fmt.Println("META " + string(js))
}

// TestC06Child is the body of the real child process of C06 scenario B.
func TestC06Child(t *testing.T) {
	spec := os.Getenv("ZSIM_C06_CHILD")
	if spec == "" {
		t.Skip()
	}
	C06ChildMain(spec)
}
