package props

import (
	"fmt"
	"sort"
	"strings"
	"time"

	"go.uber.org/zap"
	"go.uber.org/zap/zapcore"

	"verif/zsim"
)

// C11 — sampler admits the first N then every Mth entry per level and message per tick.
//
// Real: zapcore sampler (NewSamplerWithOptions, With, Check, counters).
// Stub: the wrapped core (records what is forwarded), the decision hook,
// entry timestamps (drawn around window edges).

func init() {
	register(&Prop{
		ID:  "C11",
		Run: runC11,
		Rule: "one case = (N, M, tick, level set of the wrapped core, message alphabet with measured budget classes, member: sequential history / concurrent inside an open window / concurrent straddling a window edge / clock stepping back / concurrent tasks each on its own key at a level not used before / unordered timestamps inside a span shorter than the tick) and the generated (level, message, timestamp, via-With?) entries, under one seeded schedule with a yield before every atomic operation of the sampler; " +
			"non-trivial = at least one entry was dropped and one admitted, or at least 2 tasks; distinct = distinct hash of (scheduling decisions, sequence of (level, budget class, admitted?))",
		Real: []string{"zapcore.NewSamplerWithOptions / sampler.Check / sampler.With / counter.IncCheckReset / counters.get", "sync/atomic operations (simatomic: yield, then the real operation)"},
		Stub: []string{"wrapped core (records Check/Write per entry)", "SamplerHook (records decisions per entry)", "entry timestamps"},
	})
}

type c11rec struct {
	hook      int
	decision  zapcore.SamplingDecision
	forwarded int
	written   int
}

type c11core struct {
	w      *c11world
	fields int
}

// c11accept accepts everything and writes nothing.
type c11accept struct{}

func (c11accept) Enabled(zapcore.Level) bool          { return true }
func (k c11accept) With([]zapcore.Field) zapcore.Core { return k }
func (k c11accept) Check(e zapcore.Entry, ce *zapcore.CheckedEntry) *zapcore.CheckedEntry {
	return ce.AddCore(e, k)
}
func (c11accept) Write(zapcore.Entry, []zapcore.Field) error { return nil }
func (c11accept) Sync() error                                { return nil }

// c11fixed: a clock that stamps every entry of one logger with one time.
type c11fixed struct{ t time.Time }

func (k c11fixed) Now() time.Time                         { return k.t }
func (k c11fixed) NewTicker(d time.Duration) *time.Ticker { return time.NewTicker(d) }

type c11world struct {
	c       *Ctx
	enabled func(zapcore.Level) bool
	recs    []c11rec
}

func (k *c11core) Enabled(l zapcore.Level) bool { return k.w.enabled(l) }
func (k *c11core) With(fs []zapcore.Field) zapcore.Core {
	return &c11core{w: k.w, fields: k.fields + len(fs)}
}
func (k *c11core) Check(e zapcore.Entry, ce *zapcore.CheckedEntry) *zapcore.CheckedEntry {
	if !k.Enabled(e.Level) {
		return ce
	}
	k.w.recs[c11id(e)].forwarded++
	return ce.AddCore(e, k)
}
func (k *c11core) Write(e zapcore.Entry, fs []zapcore.Field) error {
	k.w.recs[c11id(e)].written++
	return nil
}
func (k *c11core) Sync() error { return nil }

func c11id(e zapcore.Entry) int {
	id := 0
	for _, ch := range e.LoggerName {
		id = id*10 + int(ch-'0')
	}
	return id
}

type c11entry struct {
	id    int
	lvl   zapcore.Level
	msg   int // index into the alphabet
	t     time.Time
	child bool // through a With-derived sampler
}

// c11msgs: an alphabet in which some pairs collide under the sampler's hash.
// The candidates were found by searching with an independent FNV-1a; whether
// two messages actually share a budget is measured on the implementation.
var c11msgs = func() []string {
	base := []string{"hello", "request served", ""}
	h := func(s string) uint32 {
		x := uint32(2166136261)
		for i := 0; i < len(s); i++ {
			x ^= uint32(s[i])
			x *= 16777619
		}
		return x % 4096
	}
	out := append([]string{}, base...)
	for _, b := range base[:2] {
		for i := 0; ; i++ {
			s := fmt.Sprintf("collide-%d", i)
			if h(s) == h(b) {
				out = append(out, s)
				break
			}
		}
	}
	out = append(out, "another message")
	// long messages (a stack trace, a query): the budget is per message,
	// whatever its length
	out = append(out, "long: "+strings.Repeat("select * from t where id in (?, ?, ?) ", 3), "long: "+strings.Repeat("goroutine 17 [running]: main.handler ", 60))
	return out
}()

func c11big(g *zsim.Stream) int {
	base := []int{1 << 16, 1 << 31, 1 << 32, 3 << 32, 5 << 33, 1 << 62, 1<<63 - 1}[g.Draw(7)]
	if base == 1<<63-1 {
		return base - g.Draw(3)
	}
	return base + g.Draw(5) - 1
}

func c11admit(n, first, thereafter uint64) bool {
	if n <= first {
		return true
	}
	return thereafter > 0 && (n-first)%thereafter == 0
}

// c11zeroTimes: entries that all carry the zero time.Time (hand-built entries,
// slog records without a time) have equal timestamps, so they fall into one
// window however much real time passes between them: the first N and then
// every Mth of them are admitted, once. Run on the root goroutine; the time
// that passes is the bubble's (a Sleep there is instantaneous).
func c11zeroTimes(c *Ctx) {
	g := c.G
	w := &c11world{c: c, enabled: func(zapcore.Level) bool { return true }}
	N, M := g.Draw(4), g.Draw(4)
	tick := pick(g, time.Millisecond, time.Second, time.Minute)
	k := 6 + g.Draw(8)
	w.recs = make([]c11rec, k)
	hook := func(e zapcore.Entry, d zapcore.SamplingDecision) {
		rec := &w.recs[c11id(e)]
		rec.hook++
		rec.decision = d
	}
	sampler := zapcore.NewSamplerWithOptions(&c11core{w: w}, tick, N, M, zapcore.SamplerHook(hook))
	c.Describe("member=zero-timestamps N=%d M=%d tick=%v entries=%d (two ticks of real time pass between them)", N, M, tick, k)
	c.Nontrivial = true
	for i := 0; i < k; i++ {
		ent := zapcore.Entry{Level: zapcore.InfoLevel, Message: "zero time", LoggerName: fmt.Sprint(i)}
		if ce := sampler.Check(ent, nil); ce != nil {
			ce.Write()
		}
		want := c11admit(uint64(i+1), uint64(N), uint64(M))
		rec := w.recs[i]
		if (rec.forwarded == 1) != want || rec.forwarded != rec.written || rec.hook != 1 || (rec.decision&zapcore.LogSampled != 0) != want {
			c.Fail("C11: entries with equal (zero) timestamps were not admitted as the first N then every Mth of one window", "entry %d of %d: forwarded=%d written=%d hook calls=%d decision=%d, expected admitted=%v (N=%d M=%d tick=%v)", i+1, k, rec.forwarded, rec.written, rec.hook, rec.decision, want, N, M, tick)
			return
		}
		time.Sleep(2 * tick)
	}
}

func runC11(c *Ctx) {
	if c.G.Chance(8) {
		runC11built(c)
		return
	}
	if c.G.Chance(25) {
		c11zeroTimes(c)
		return
	}
	g, r := c.G, c.R
	w := &c11world{c: c}
	N := pick(g, 0, 1, 2, 3, 5, 100)
	M := pick(g, 0, 1, 2, 3, 5, 100)
	// "for all N, M >= 0": now and then a value around the 16/31/32/63-bit
	// boundaries, where narrowed arithmetic would go wrong
	if g.Chance(8) {
		M = c11big(g)
	}
	if g.Chance(16) {
		N = c11big(g)
	}
	tick := []time.Duration{0, 1, time.Millisecond, time.Second, 90 * time.Minute}[g.Weighted(1, 1, 2, 5, 1)]
	enabSet := g.Draw(4)
	// one run in four: the wrapped core sits behind a level that enables nothing
	// while the sampler is built and its With-child derived, and is switched to
	// the run's levels before the first entry
	dark := g.Chance(4)
	if dark {
		c.R.Probe("sampler built and child derived while the wrapped core enables nothing")
	}
	w.enabled = func(l zapcore.Level) bool {
		if dark {
			return false
		}
		switch enabSet {
		case 0:
			return true
		case 1:
			return l >= zapcore.InfoLevel
		case 2:
			return l != zapcore.WarnLevel && l != zapcore.Level(7)
		}
		return l >= zapcore.ErrorLevel || l == zapcore.DebugLevel-1
	}
	member := g.Weighted(5, 3, 2, 1, 2, 1) // 0 sequential, 1 concurrent in window, 2 concurrent straddling, 3 clock stepping back, 4 concurrent on disjoint keys, 5 unordered stamps inside a span shorter than the tick
	if member == 5 && tick < 4 {
		member = 0
	}
	inner := &c11core{w: w}
	// one run in five: the hook (user code: a metrics client, say) panics when
	// it is told of some of the drops; the caller recovers. The decision it was
	// told is still the one that must have been applied.
	hookPanics := g.Chance(5)
	if hookPanics {
		c.R.Probe("sampling hook panics on some drops")
	}
	hook := func(e zapcore.Entry, d zapcore.SamplingDecision) {
		id := c11id(e)
		rec := &w.recs[id]
		rec.hook++
		rec.decision = d
		if hookPanics && d&zapcore.LogDropped != 0 && id%3 == 0 {
			panic("c11: the sampling hook panics")
		}
	}
	viaLogger := g.Chance(4)
	// one run in four: the sampler is not the first core to see an entry (the
	// second branch of a tee: the CheckedEntry it is handed is not nil)
	afterAnother := g.Chance(4)
	if afterAnother {
		c.R.Probe("sampler checked after another core accepted the entry")
	}
	if viaLogger {
		c.Describe("entries are logged through a zap.Logger over the sampler")
		c.R.Probe("entries logged through a zap.Logger over the sampler")
	}
	// the sampler is built by either constructor: with a decision hook, by
	// NewSamplerWithOptions without options, or by the older NewSampler; without
	// a hook the decisions are read off what reaches the wrapped core
	noHook := g.Chance(5)
	var sampler zapcore.Core
	switch {
	case !noHook:
		sampler = zapcore.NewSamplerWithOptions(inner, tick, N, M, zapcore.SamplerHook(hook))
	case g.Chance(2):
		sampler = zapcore.NewSamplerWithOptions(inner, tick, N, M)
		c.R.Probe("sampler built without a hook")
	default:
		sampler = zapcore.NewSampler(inner, tick, N, M)
		c.R.Probe("sampler built by the deprecated NewSampler")
	}
	child := sampler.With([]zapcore.Field{{Key: "k", Type: zapcore.Int64Type, Integer: 1}})
	if g.Chance(3) {
		// the derived core is a lazy one (Logger.WithLazy over a sampled logger):
		// it shares the budget like any other, one decision per entry
		child = zapcore.NewLazyWith(sampler, []zapcore.Field{{Key: "k", Type: zapcore.Int64Type, Integer: 1}})
		c.R.Probe("child derived with NewLazyWith")
	}
	dark = false
	epoch := drawEpoch(g)
	if epoch.Unix() < 1 {
		// timestamps before 1970 are all one window to a counter whose reset
		// time starts at zero; the statement is about tick windows, not about
		// pre-epoch clocks, so they are kept out
		epoch = time.Unix(86400+epoch.Unix()*-1, 0).UTC()
	}

	// ---- measure which messages share a budget (on a scratch sampler) ----
	nmsg := len(c11msgs)
	class := make([]int, nmsg)
	{
		sw := &c11world{c: c, enabled: func(zapcore.Level) bool { return true }}
		sw.recs = make([]c11rec, 1)
		scratch := zapcore.NewSamplerWithOptions(&c11core{w: sw}, time.Hour, 1, 0)
		for i := range class {
			class[i] = i
		}
		win := 0
		for i := 0; i < nmsg; i++ {
			for j := i + 1; j < nmsg; j++ {
				win++
				t := epoch.Add(time.Duration(win) * 2 * time.Hour)
				sw.recs[0] = c11rec{}
				scratch.Check(zapcore.Entry{Level: zapcore.InfoLevel, Message: c11msgs[i], Time: t, LoggerName: "0"}, nil)
				scratch.Check(zapcore.Entry{Level: zapcore.InfoLevel, Message: c11msgs[j], Time: t, LoggerName: "0"}, nil)
				switch sw.recs[0].forwarded {
				case 2: // independent budgets
				case 1:
					if class[j] == j {
						class[j] = class[i]
					} else if class[j] != class[i] {
						c.Fail("C11: sharing a budget is not an equivalence", "messages %q and %q interfere but were classed %d and %d", c11msgs[i], c11msgs[j], class[i], class[j])
						return
					}
					r.Probe("two distinct messages share a budget (hash collision)")
				default:
					c.Fail("C11: first entry of a fresh window was not admitted", "probe pair %q,%q: forwarded %d", c11msgs[i], c11msgs[j], sw.recs[0].forwarded)
					return
				}
			}
		}
	}

	// ---- budgets are per level: with a fixed per-message hash, logging the
	// same batch of messages once at every level (one window, N=1, M=0) must
	// drop exactly the same positions at every level (the within-level hash
	// collisions); anything else means budgets leak between levels ----
	if g.Chance(4) {
		sw := &c11world{c: c, enabled: func(zapcore.Level) bool { return true }}
		batch := 40 + g.Draw(40)
		sw.recs = make([]c11rec, batch*8)
		scratch := zapcore.NewSamplerWithOptions(&c11core{w: sw}, time.Hour, 1, 0)
		tag := g.Draw(1 << 20)
		t := epoch.Add(48 * time.Hour)
		var first []bool
		for li, lvl := range []zapcore.Level{zapcore.DebugLevel, zapcore.InfoLevel, zapcore.WarnLevel, zapcore.ErrorLevel, zapcore.DPanicLevel, zapcore.PanicLevel, zapcore.FatalLevel} {
			dropped := make([]bool, batch)
			for i := 0; i < batch; i++ {
				id := li*batch + i
				scratch.Check(zapcore.Entry{Level: lvl, Message: fmt.Sprintf("probe message %d-%d", tag, i), Time: t, LoggerName: fmt.Sprint(id)}, nil)
				dropped[i] = sw.recs[id].forwarded == 0
			}
			if li == 0 {
				first = dropped
				continue
			}
			for i := range dropped {
				if dropped[i] != first[i] {
					c.Fail("C11: sampling budgets are not separate per level", "the %d-th of %d distinct messages logged once at every level in one window was dropped=%v at level %s but dropped=%v at debug: entries of another level consumed its budget", i, batch, dropped[i], lvl, first[i])
					return
				}
			}
		}
		r.Probe("per-level budget independence probed")
	}

	// ---- generate entries ----
	levels := []zapcore.Level{zapcore.DebugLevel, zapcore.InfoLevel, zapcore.InfoLevel, zapcore.WarnLevel, zapcore.ErrorLevel, zapcore.FatalLevel, zapcore.DebugLevel - 1, zapcore.Level(7), zapcore.Level(-100), zapcore.Level(100)}
	nTasks := 1
	if member == 1 || member == 2 {
		nTasks = 2 + g.Draw(3)
	}
	// member 4: every task logs its own message (its own budget: distinct
	// measured classes) at one level that nothing has used on this sampler
	// before. The entries of a key are issued by one task in order, so the
	// sequential model applies to every key exactly, whatever the other tasks
	// do to their keys at the same time - including the very first use of the
	// level by several tasks at once.
	var ownMsg []int
	ownLevel := zapcore.InfoLevel
	if member == 4 {
		seen := map[int]bool{}
		for m := 0; m < nmsg; m++ {
			if !seen[class[m]] {
				seen[class[m]] = true
				ownMsg = append(ownMsg, m)
			}
		}
		// which of the classes the tasks get varies (the long messages sit at the
		// end of the alphabet)
		if rot := g.Draw(len(ownMsg)); rot > 0 {
			ownMsg = append(ownMsg[rot:], ownMsg[:rot]...)
		}
		nTasks = 2 + g.Draw(3)
		if nTasks > len(ownMsg) {
			nTasks = len(ownMsg)
		}
		if nTasks < 2 {
			member, nTasks = 0, 1
		}
		ownLevel = pick(g, zapcore.DebugLevel, zapcore.InfoLevel, zapcore.WarnLevel, zapcore.ErrorLevel, zapcore.DPanicLevel, zapcore.PanicLevel, zapcore.FatalLevel)
	}
	maxE := 14
	if c.Tier == "thorough" {
		maxE = 40
	}
	t0 := epoch
	step := tick
	if step == 0 {
		step = time.Millisecond
	}
	var progs [][]*c11entry
	id := 0
	mk := func(lvl zapcore.Level, msg int, t time.Time, ch bool) *c11entry {
		id++
		return &c11entry{id: id, lvl: lvl, msg: msg, t: t, child: ch}
	}
	// concurrent members use few keys so that budgets are contended
	keyMsgs := 1 + g.Draw(2)
	keyLvls := 1 + g.Draw(2)
	var prelude []*c11entry
	if member == 1 || member == 2 {
		for l := 0; l < keyLvls; l++ {
			for m := 0; m < keyMsgs; m++ {
				prelude = append(prelude, mk(levels[1+l*2], m, t0, false))
			}
		}
	}
	cur := t0
	for t := 0; t < nTasks; t++ {
		n := 1 + g.Draw(maxE)
		var p []*c11entry
		if member == 4 {
			cur = t0
		}
		for i := 0; i < n; i++ {
			switch member {
			case 5:
				// timestamps in no particular order, all within half a tick of t0
				off := time.Duration(g.Draw(int(min64(int64(tick)/2, 1000))))
				p = append(p, mk(levels[1+g.Draw(2)*2], g.Draw(2), t0.Add(off), g.Chance(3)))
			case 4:
				switch g.Weighted(6, 1, 1, 1, 1) {
				case 1:
					cur = cur.Add(step - 1)
				case 2:
					cur = cur.Add(step)
				case 3:
					cur = cur.Add(step + 1)
				case 4:
					cur = cur.Add(time.Duration(g.Draw(int(step/2)+1)) + 1)
				}
				p = append(p, mk(ownLevel, ownMsg[t], cur, g.Chance(3)))
			case 0, 3:
				// walk time around window edges
				switch g.Weighted(5, 2, 2, 2, 1, 1) {
				case 0: // same instant
				case 1:
					cur = cur.Add(step - 1)
				case 2:
					cur = cur.Add(step)
				case 3:
					cur = cur.Add(step + 1)
				case 4:
					cur = cur.Add(time.Duration(1+g.Draw(5)) * step * 3)
				case 5:
					cur = cur.Add(time.Duration(g.Draw(int(step/2)+1)) + 1)
				}
				if member == 3 && g.Chance(4) {
					cur = cur.Add(-time.Duration(1+g.Draw(3)) * step)
					c.Fault("clock-step-back")
				}
				p = append(p, mk(levels[g.Draw(len(levels))], g.Draw(nmsg), cur, g.Chance(3)))
			case 1:
				// strictly inside the window opened by the prelude
				off := time.Duration(0)
				if tick > 1 {
					off = time.Duration(1 + g.Draw(int(min64(int64(tick)-1, 1000))))
				}
				p = append(p, mk(levels[1+g.Draw(keyLvls)*2], g.Draw(keyMsgs), t0.Add(off), g.Chance(3)))
			case 2:
				off := time.Duration(g.Draw(3)) * step
				if g.Chance(2) {
					off += time.Duration(g.Draw(3)) - 1
				}
				p = append(p, mk(levels[1+g.Draw(keyLvls)*2], g.Draw(keyMsgs), t0.Add(off), g.Chance(3)))
			}
		}
		progs = append(progs, p)
	}
	w.recs = make([]c11rec, id+1)
	c.Describe("N=%d M=%d tick=%v enabled-set=%d member=%d tasks=%d classes=%v policy=%s", N, M, tick, enabSet, member, nTasks, class, r.Policy)
	for t, p := range progs {
		var b strings.Builder
		fmt.Fprintf(&b, "t%d:", t)
		for _, e := range p {
			fmt.Fprintf(&b, " (%d,m%d,+%v,%v)", e.lvl, e.msg, e.t.Sub(t0), e.child)
		}
		c.Describe("%s", b.String())
	}
	if member == 1 && tick <= 1 {
		member = 2 // no room inside a window: only the accounting can be judged
	}

	do := func(e *c11entry) {
		if hookPanics {
			defer func() { _ = recover() }()
		}
		core := sampler
		if e.child {
			core = child
		}
		if viaLogger {
			// the way applications reach a sampler: through a Logger over it (its
			// clock stamps the entry; terminal actions replaced by hooks that
			// return, so that Panic and Fatal entries can be repeated)
			lcore := core
			if afterAnother {
				lcore = zapcore.NewTee(c11accept{}, core)
			}
			lg := zap.New(lcore, zap.WithClock(c11fixed{e.t}), zap.WithPanicHook(c06quiet{}), zap.WithFatalHook(c06quiet{})).Named(fmt.Sprint(e.id))
			// plain and sugared calls alike: the entry's message is the rendered text
			switch m := c11msgs[e.msg]; e.id % 5 {
			case 2:
				lg.Sugar().Logf(e.lvl, "%s", m)
			case 3:
				lg.Sugar().Logf(e.lvl, "%s%s", m[:len(m)/2], m[len(m)/2:])
			case 4:
				lg.Sugar().Logw(e.lvl, m)
			default:
				lg.Log(e.lvl, m)
			}
			return
		}
		ent := zapcore.Entry{Level: e.lvl, Message: c11msgs[e.msg], Time: e.t, LoggerName: fmt.Sprint(e.id)}
		var ce *zapcore.CheckedEntry
		if afterAnother {
			ce = ce.AddCore(ent, c11accept{}) // as the second branch of a tee: another core has accepted already
		}
		if ce = core.Check(ent, ce); ce != nil {
			ce.Write()
		}
	}
	// reference model per (level, class): window end and count
	type key struct {
		lvl zapcore.Level
		cls int
	}
	type win struct {
		end   int64
		count uint64
	}
	model := map[key]*win{}
	modelStep := func(e *c11entry) (admit, decided bool) {
		if !w.enabled(e.lvl) {
			return false, false
		}
		if e.lvl < zapcore.DebugLevel || e.lvl > zapcore.FatalLevel {
			return true, false // passes unsampled, no decision
		}
		k := key{e.lvl, class[e.msg]}
		m := model[k]
		if m == nil {
			m = &win{}
			model[k] = m
		}
		tn := e.t.UnixNano()
		if tn >= m.end {
			m.end = tn + int64(tick)
			m.count = 1
		} else {
			m.count++
		}
		return c11admit(m.count, uint64(N), uint64(M)), true
	}
	// per-entry accounting, valid in every member
	account := func(e *c11entry, what string) bool {
		rec := w.recs[e.id]
		enabled := w.enabled(e.lvl)
		inRange := e.lvl >= zapcore.DebugLevel && e.lvl <= zapcore.FatalLevel
		switch {
		case !enabled:
			if rec.hook != 0 || rec.forwarded != 0 || rec.written != 0 {
				c.Fail("C11: an entry at a disabled level caused hook or core activity", "%s entry %d level %d: hook=%d forwarded=%d written=%d", what, e.id, e.lvl, rec.hook, rec.forwarded, rec.written)
				return false
			}
		case !inRange:
			if rec.hook != 0 || rec.forwarded != 1 || rec.written != 1 {
				c.Fail("C11: an entry with an out-of-range level did not pass unsampled", "%s entry %d level %d: hook=%d forwarded=%d written=%d", what, e.id, e.lvl, rec.hook, rec.forwarded, rec.written)
				return false
			}
		case noHook:
			if rec.forwarded != rec.written || rec.forwarded > 1 {
				c.Fail("C11: a decided entry was not forwarded and written at most once", "%s entry %d: forwarded=%d written=%d", what, e.id, rec.forwarded, rec.written)
				return false
			}
		default:
			if rec.hook != 1 {
				c.Fail("C11: the decision hook was not called exactly once for a decided entry", "%s entry %d level %d msg %q: hook calls=%d", what, e.id, e.lvl, c11msgs[e.msg], rec.hook)
				return false
			}
			sampled := rec.decision&zapcore.LogSampled != 0
			dropped := rec.decision&zapcore.LogDropped != 0
			if sampled == dropped {
				c.Fail("C11: the hook decision is neither sampled nor dropped", "%s entry %d: decision=%d", what, e.id, rec.decision)
				return false
			}
			want := 0
			if sampled {
				want = 1
			}
			if rec.forwarded != want || rec.written != want {
				c.Fail("C11: hook decision and forwarding disagree", "%s entry %d: hook said sampled=%v, forwarded=%d written=%d", what, e.id, sampled, rec.forwarded, rec.written)
				return false
			}
		}
		return true
	}

	// prelude on the root (opens the windows), judged exactly
	for _, e := range prelude {
		do(e)
		admit, decided := modelStep(e)
		if !account(e, "prelude") {
			return
		}
		if decided && (w.recs[e.id].forwarded == 1) != admit {
			c.Fail("C11: sequential admission differs from the windowed-counter model", "prelude entry %d", e.id)
			return
		}
	}

	for t := range progs {
		p := progs[t]
		r.Go(fmt.Sprintf("t%d", t), func() {
			for _, e := range p {
				do(e)
				if nTasks == 1 {
					// exact, per entry
					admit, decided := modelStep(e)
					if !account(e, "sequential") {
						return
					}
					if member == 3 || member == 5 {
						continue // stamps not in order: only the accounting is judged per entry (member 5: plus the span bound below)
					}
					got := w.recs[e.id].forwarded == 1
					if got != admit {
						k := key{e.lvl, class[e.msg]}
						c.Fail("C11: admission differs from the windowed-counter model", "entry %d (level %d, msg %q, t=+%v, via With=%v): model count in window=%d, N=%d M=%d tick=%v: expected admitted=%v, got %v (decided=%v)", e.id, e.lvl, c11msgs[e.msg], e.t.Sub(t0), e.child, model[k].count, N, M, tick, admit, got, decided)
						return
					}
					c.MixState(uint64(int(e.lvl)+128)<<16 | uint64(class[e.msg])<<8 | b2u(got))
				}
				zsim.Yield(zsim.KOp, nil)
			}
		})
	}
	c.Nontrivial = nTasks >= 2
	c.Sim()

	// ---- end of run ----
	admitted, droppedN := 0, 0
	for _, p := range progs {
		for _, e := range p {
			if !account(e, "final") {
				return
			}
			if w.recs[e.id].forwarded == 1 {
				admitted++
			} else if w.recs[e.id].hook == 1 || (noHook && w.enabled(e.lvl)) {
				droppedN++
			}
		}
	}
	if admitted > 0 && droppedN > 0 {
		c.Nontrivial = true
	}
	if member == 5 {
		// All entries of a key are stamped within a span shorter than the tick.
		// However windows are laid out, tick-long windows that do not overlap
		// meet such a span in at most two places, so the entries are shared out
		// between at most two windows: no more can have been admitted than the
		// best split into two windows allows.
		inWindow := func(k int) int {
			a := k
			if a > N {
				a = N
				if M > 0 {
					a += (k - N) / M
				}
			}
			return a
		}
		per := map[key]int{}
		adm := map[key]int{}
		for _, p := range progs {
			for _, e := range p {
				if !w.enabled(e.lvl) || e.lvl < zapcore.DebugLevel || e.lvl > zapcore.FatalLevel {
					continue
				}
				k := key{e.lvl, class[e.msg]}
				per[k]++
				adm[k] += w.recs[e.id].forwarded
			}
		}
		var keys []key
		for k := range per {
			keys = append(keys, k)
		}
		sort.Slice(keys, func(i, j int) bool {
			if keys[i].lvl != keys[j].lvl {
				return keys[i].lvl < keys[j].lvl
			}
			return keys[i].cls < keys[j].cls
		})
		for _, k := range keys {
			n, best := per[k], 0
			for a := 0; a <= n; a++ {
				if v := inWindow(a) + inWindow(n-a); v > best {
					best = v
				}
			}
			if adm[k] > best {
				c.Fail("C11: more entries of one key were admitted within a span shorter than the tick than two windows allow", "level %d class %d: %d entries stamped within %v of each other (in no particular order), tick %v, N=%d M=%d: %d admitted, at most %d possible", k.lvl, k.cls, n, time.Duration(min64(int64(tick)/2, 1000)), tick, N, M, adm[k], best)
				return
			}
		}
	}
	if member == 4 {
		for t, p := range progs {
			for _, e := range p {
				admit, decided := modelStep(e)
				if got := w.recs[e.id].forwarded == 1; decided && got != admit {
					k := key{e.lvl, class[e.msg]}
					c.Fail("C11: admission of a key logged by one task differs from the windowed-counter model while other tasks log other keys", "task %d entry %d (level %d, msg %q, t=+%v, via With=%v): model count in window=%d, N=%d M=%d tick=%v: expected admitted=%v, got %v", t, e.id, e.lvl, c11msgs[e.msg], e.t.Sub(t0), e.child, model[k].count, N, M, tick, admit, got)
					return
				}
			}
		}
	}
	if member == 1 {
		// all entries of a key fell into an already open window: the count is exact
		per := map[key][]*c11entry{}
		for _, p := range progs {
			for _, e := range p {
				if w.enabled(e.lvl) {
					k := key{e.lvl, class[e.msg]}
					per[k] = append(per[k], e)
				}
			}
		}
		var keys []key
		for k := range per {
			keys = append(keys, k)
		}
		sort.Slice(keys, func(i, j int) bool {
			if keys[i].lvl != keys[j].lvl {
				return keys[i].lvl < keys[j].lvl
			}
			return keys[i].cls < keys[j].cls
		})
		for _, k := range keys {
			es := per[k]
			base := model[k]
			if base == nil {
				continue
			}
			want := 0
			for i := range es {
				if c11admit(base.count+uint64(i)+1, uint64(N), uint64(M)) {
					want++
				}
			}
			got := 0
			for _, e := range es {
				got += w.recs[e.id].forwarded
			}
			c.MixState(uint64(got)<<8 | uint64(len(es)))
			if got != want {
				c.Fail("C11: concurrent entries inside one open window were admitted in the wrong number", "level %d class %d: %d entries after %d in the window, N=%d M=%d: expected %d admitted, got %d", k.lvl, k.cls, len(es), base.count, N, M, want, got)
				return
			}
		}
	}
}

func b2u(b bool) uint64 {
	if b {
		return 1
	}
	return 0
}

func min64(a, b int64) int64 {
	if a < b {
		return a
	}
	return b
}
