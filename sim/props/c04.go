package props

import (
	"bytes"
	"context"
	"fmt"
	"io"
	"log"
	"log/slog"
	"net/url"
	"strings"
	"sync"
	"time"
	"unsafe"

	"go.uber.org/zap"
	"go.uber.org/zap/exp/zapslog"
	"go.uber.org/zap/zapcore"
	"go.uber.org/zap/zapgrpc"
	"go.uber.org/zap/zapio"

	"verif/simsync"
	"verif/zsim"
)

// C04 — concurrent logging delivers every entry exactly once as an intact line.

func init() {
	register(&Prop{
		ID:  "C04",
		Run: runC04,
		Rule: "one case = (encoder, 1-3 tee branches each with its own level and sink stack drawn from Lock(sink) / zap.Open of 1-2 zsim:// sinks / CombineWriteSyncers / BufferedWriteSyncer of size 16..256, 2-4 tasks each with a derived logger variant and 1-8 calls through drawn front ends and message sizes, optional Sync task and flush ticks, pool reuse policy) under one seeded schedule; " +
			"non-trivial = at least 2 tasks logged; distinct = distinct hash of (scheduling decision sequence, per-sink sequence of call identities)",
		Real: []string{"zap.Logger / SugaredLogger / zapslog.Handler / std-log bridge front ends", "zapcore ioCore, tee, JSON and console encoders, buffer pool", "zapcore.Lock, NewMultiWriteSyncer, zap.Open, zap.CombineWriteSyncers, BufferedWriteSyncer"},
		Stub: []string{"leaf sinks (zsim.SimSink, non-atomic: 1-3 fragments per write with a yield between)", "clock/ticker of buffered syncers (zsim.SimClock)", "sync.Pool (simsync.Pool: LIFO/FIFO/random reuse with poison on put)", "sync.Mutex/RWMutex (modelled, then really executed)"},
	})
}

type c04branch struct {
	level   zapcore.Level
	console bool
	kind    int
	sinks   []*zsim.SimSink
	ws      zapcore.WriteSyncer
	bws     *zapcore.BufferedWriteSyncer
	closeFn func()
	flaky   bool // its device fails from some call on: not judged, but the other branches must not suffer
	fork    int  // forked tees: 0 common to both loggers, 1/2 private to logger A/B
	shares  int  // kind 5: index of the Lock(sink) branch whose locked syncer this branch writes to as well (-1 none)
	shared  bool // another branch writes to this branch's locked syncer too
	core    zapcore.Core
	// reference
	refBuf  *bytes.Buffer
	refCore zapcore.Core
}

type c04call struct {
	task, seq int
	lvl       zapcore.Level
	front     int
	msg       string
	pad       string
	done      bool
	rich      int // -1 none, else a richFields recipe
	// postlude: run on the root after the tasks, with the switched branches
	// turned off between Check and Write
	postlude bool
}

type c04task struct {
	fork    int // forked tees: which of the two loggers (1/2) the task uses; 0 = the only logger
	variant int
	calls   []*c04call
}

const (
	feLevel = iota // Info/Warn/...
	feLog
	feCheck
	feSugarW
	feSugarF
	feSugarLn
	feSlog
	feStd
	feGrpc
	feZapio
	fePanicRecovered
	fePanicMarshal
	nFrontEnds
)

// taskLogger bundles the front ends derived for one task from a base logger.
type taskLogger struct {
	l    *zap.Logger
	s    *zap.SugaredLogger
	sl   *slog.Logger
	std  map[zapcore.Level]*log.Logger
	grpc *zapgrpc.Logger
	wio  map[zapcore.Level]*zapio.Writer
}

func c04derive(base *zap.Logger, variant, t int) *taskLogger {
	return c04wrap(c04deriveLogger(base, variant, t))
}

// perTask gives a task its own copy of a shared bundle: everything is shared
// except the zapio writers, which are not meant for concurrent use, and the
// std-log bridge loggers: log.Logger serialises its callers with a mutex of
// the standard library, which the simulator does not model (a task parked
// inside it would block the others on a real lock).
func (tl *taskLogger) perTask() *taskLogger {
	cp := *tl
	cp.wio = map[zapcore.Level]*zapio.Writer{}
	cp.std = map[zapcore.Level]*log.Logger{}
	for _, lv := range stdLevels {
		cp.wio[lv] = &zapio.Writer{Log: tl.l, Level: lv}
		sl, err := zap.NewStdLogAt(tl.l, lv)
		if err != nil {
			panic(err)
		}
		cp.std[lv] = sl
	}
	return &cp
}

func c04deriveLogger(base *zap.Logger, variant, t int) *zap.Logger {
	l := base
	switch variant {
	case 1:
		l = base.With(zap.Int("task", t), zap.String("who", fmt.Sprintf("worker-%d", t)))
	case 2:
		l = base.Named(fmt.Sprintf("n%d", t))
	case 3:
		l = base.WithLazy(zap.Int("task", t))
	case 4:
		l = base.With(zap.Namespace("ns"), zap.Int("task", t))
	case 5:
		l = base.Named("a").With(zap.Bool("x", true)).Named(fmt.Sprintf("b%d", t))
	case 6:
		l = base.With(zap.Reflect("cfg", yieldJSON{t}), zap.Int("task", t))
	case 7:
		l = base.With(zap.Reflect("cfg", map[string]int{"t": t})).With(zap.Object("yo", yieldObj{t}), zap.Reflect("r2", yieldJSON{t + 100}))
	case 8:
		// lazy fields whose evaluation is a yield point: when the child is shared,
		// its first users meet inside the evaluation
		l = base.WithLazy(zap.Object("yo", yieldObj{t}), zap.Int("task", t))
	case 9:
		l = base.WithLazy(zap.Reflect("cfg", yieldJSON{t})).With(zap.Int("task", t)).WithLazy(zap.String("who", "lazy-on-top"))
	}
	return l
}

func c04wrap(l *zap.Logger) *taskLogger {
	tl := &taskLogger{l: l, s: l.Sugar(), std: map[zapcore.Level]*log.Logger{}, wio: map[zapcore.Level]*zapio.Writer{}}
	tl.sl = slog.New(zapslog.NewHandler(l.Core()))
	tl.grpc = zapgrpc.NewLogger(l, zapgrpc.WithDebug())
	for _, lv := range stdLevels {
		tl.wio[lv] = &zapio.Writer{Log: l, Level: lv}
		sl, err := zap.NewStdLogAt(l, lv)
		if err != nil {
			panic(err)
		}
		tl.std[lv] = sl
	}
	return tl
}

// c04afterCheck, when set, runs between Check and Write of a Check/Write call.
var c04afterCheck func()

func c04do(tl *taskLogger, c *c04call) {
	msg := c.msg
	fields := []zap.Field{zap.Int("t", c.task), zap.Int("s", c.seq), zap.String("pad", c.pad)}
	if c.rich >= 0 {
		fields = append(fields, richFields(c.rich, c.seq)...)
	}
	switch c.front {
	case feLevel:
		switch c.lvl {
		case zapcore.DebugLevel:
			tl.l.Debug(msg, fields...)
		case zapcore.InfoLevel:
			tl.l.Info(msg, fields...)
		case zapcore.WarnLevel:
			tl.l.Warn(msg, fields...)
		default:
			tl.l.Error(msg, fields...)
		}
	case feLog:
		tl.l.Log(c.lvl, msg, fields...)
	case feCheck:
		if ce := tl.l.Check(c.lvl, msg); ce != nil {
			if c04afterCheck != nil {
				c04afterCheck() // (postlude calls only: see there)
			}
			if c.seq%3 == 2 {
				// with an after-write hook that returns (an audit hook, say)
				ce = ce.After(ce.Entry, c06quiet{})
			}
			ce.Write(fields...)
		}
	case feSugarW:
		if c.seq%2 == 0 {
			tl.s.Logw(c.lvl, msg, "t", c.task, "s", c.seq, "pad", c.pad)
			break
		}
		switch c.lvl {
		case zapcore.DebugLevel:
			tl.s.Debugw(msg, "t", c.task, "s", c.seq, "pad", c.pad)
		case zapcore.InfoLevel:
			tl.s.Infow(msg, "t", c.task, "s", c.seq, "pad", c.pad)
		case zapcore.WarnLevel:
			tl.s.Warnw(msg, "t", c.task, "s", c.seq, "pad", c.pad)
		default:
			tl.s.Errorw(msg, "t", c.task, "s", c.seq, "pad", c.pad)
		}
	case feSugarF:
		if c.seq%2 == 0 {
			tl.s.Logf(c.lvl, "%s|%d|%s", msg, c.seq, c.pad)
			break
		}
		switch c.lvl {
		case zapcore.DebugLevel:
			tl.s.Debugf("%s|%d|%s", msg, c.seq, c.pad)
		case zapcore.InfoLevel:
			tl.s.Infof("%s|%d|%s", msg, c.seq, c.pad)
		case zapcore.WarnLevel:
			tl.s.Warnf("%s|%d|%s", msg, c.seq, c.pad)
		default:
			tl.s.Errorf("%s|%d|%s", msg, c.seq, c.pad)
		}
	case feSugarLn:
		switch {
		case c.seq%3 == 0:
			tl.s.Logln(c.lvl, msg, c.seq, c.pad)
		case c.seq%3 == 1:
			switch c.lvl {
			case zapcore.DebugLevel:
				tl.s.Debugln(msg, c.seq, c.pad)
			case zapcore.InfoLevel:
				tl.s.Infoln(msg, c.seq, c.pad)
			case zapcore.WarnLevel:
				tl.s.Warnln(msg, c.seq, c.pad)
			default:
				tl.s.Errorln(msg, c.seq, c.pad)
			}
		default:
			// the print-style methods
			switch c.lvl {
			case zapcore.DebugLevel:
				tl.s.Debug(msg, "|", c.pad)
			case zapcore.InfoLevel:
				tl.s.Info(msg, "|", c.pad)
			case zapcore.WarnLevel:
				tl.s.Log(c.lvl, msg, "|", c.pad)
			default:
				tl.s.Error(msg, "|", c.pad)
			}
		}
	case feSlog:
		var sl slog.Level
		switch c.lvl {
		case zapcore.DebugLevel:
			sl = slog.LevelDebug
		case zapcore.InfoLevel:
			sl = slog.LevelInfo
		case zapcore.WarnLevel:
			sl = slog.LevelWarn
		default:
			sl = slog.LevelError
		}
		tl.sl.Log(context.Background(), sl, msg, "t", c.task, "s", c.seq, "pad", c.pad)
	case feStd:
		tl.std[c.lvl].Print(msg + "|" + c.pad)
	case feGrpc:
		switch c.lvl {
		case zapcore.DebugLevel:
			tl.grpc.Print(msg, "|", c.pad)
		case zapcore.InfoLevel:
			tl.grpc.Infof("%s|%s", msg, c.pad)
		case zapcore.WarnLevel:
			tl.grpc.Warningln(msg, c.seq, c.pad)
		default:
			tl.grpc.Error(msg, "|", c.pad)
		}
	case fePanicMarshal:
		// a field marshaler with a bug: it panics half-way through encoding and
		// the application recovers. No line for this call (the reference run
		// does the same); the lines of everybody else are untouched by what the
		// abandoned call had borrowed from the pools.
		func() {
			defer func() { _ = recover() }()
			tl.l.Log(c.lvl, msg, append(fields, zap.Namespace("ns"), zap.Object("boom", c8panicObj{}))...)
		}()
	case fePanicRecovered:
		// an entry above Error whose terminal action the application survives:
		// a Panic-level entry (or DPanic, which does not panic outside
		// development) logged inside a recover, like a request handler does.
		// It is written and synced like any other entry.
		func() {
			defer func() { _ = recover() }()
			if c.seq%2 == 0 {
				tl.l.Panic(msg, fields...)
			} else {
				tl.l.DPanic(msg, fields...)
			}
		}()
	case feZapio:
		// one complete line per call, delivered in two chunks through the
		// line-splitting writer (each task owns its writers: zapio.Writer is
		// not itself safe for concurrent use)
		w := tl.wio[c.lvl]
		line := msg + "|" + c.pad + "\n"
		h := len(line) / 2
		_, _ = w.Write([]byte(line[:h]))
		_, _ = w.Write([]byte(line[h:]))
	}
}

func runC04(c *Ctx) {
	g, r := c.G, c.R
	frag := 1 + g.Draw(3)
	poolPol := pick(g, simsync.PoolLIFO, simsync.PoolLIFO, simsync.PoolRandom, simsync.PoolFIFO, simsync.PoolFresh)
	simsync.SetPolicy(poolPol, uint64(g.Draw(1<<16))+1, 0)
	guardDone := guardOn(c)
	defer guardDone()
	nBranch := 1 + g.Weighted(5, 3, 1)
	// tees of tees (see below) need room: a common parent built in steps and
	// at least one branch private to each of the two loggers
	forkWanted := g.Chance(6)
	if forkWanted {
		nBranch = 3 + g.Draw(3)
	} else if g.Chance(12) {
		// a wide tee: more accepting cores than any inline storage for a handful holds
		nBranch = 5 + g.Draw(6)
		r.Probe("tee of 5-10 branches")
	}
	table := map[string]func(u *url.URL) (zap.Sink, error){}
	useSimScheme(table)
	clk := zsim.NewSimClock(r, drawEpoch(g))
	var branches []*c04branch
	var cores, refCores []zapcore.Core
	// caller annotation on: the call sites are the same lines of c04do in
	// the simulated and in the reference execution
	withCaller := g.Chance(4)
	// derived loggers shared between tasks (one derivation per variant, made
	// before the tasks start) instead of one private derivation per task
	shared := g.Chance(3)
	var tickers []*zapcore.BufferedWriteSyncer
	bufSize := 0
	unjudged := map[*zsim.SimSink]bool{}
	var switchOn, switchOff []func()
	for b := 0; b < nBranch; b++ {
		br := &c04branch{level: stdLevels[g.Weighted(4, 2, 2, 1)], console: g.Chance(4), kind: g.Draw(7), shares: -1}
		if br.kind == 5 || br.kind == 6 {
			// needs an earlier Lock(sink) branch to share with
			want := br.kind
			br.kind = 0
			for pi, pb := range branches {
				if pb.kind == 0 && !pb.flaky {
					br.kind, br.shares = want, pi
					break
				}
			}
		}
		mk := func(name string) *zsim.SimSink {
			s := simSinkFor(r, g, name, frag)
			br.sinks = append(br.sinks, s)
			r.Label(unsafe.Pointer(s), name)
			return s
		}
		switch br.kind {
		case 0:
			sk := mk(fmt.Sprintf("b%d", b))
			if g.Chance(4) {
				// a device type that carries a mutex of its own for some other job
				// (its Lock/Unlock methods are promoted): it does not serialise the
				// device's Write and Sync, Lock(sink) has to
				br.ws = zapcore.Lock(&c04lockerSink{SimSink: sk})
				c.R.Probe("device type with Lock/Unlock methods of its own under zapcore.Lock")
			} else {
				br.ws = zapcore.Lock(sk)
			}
		case 1, 2:
			n := br.kind
			var urls []string
			for i := 0; i < n; i++ {
				name := fmt.Sprintf("b%d-%d", b, i)
				s := mk(name)
				table[name] = func(u *url.URL) (zap.Sink, error) { return s, nil }
				urls = append(urls, "zsim://"+name+"/x")
			}
			ws, cl, err := zap.Open(urls...)
			if err != nil {
				panic(err)
			}
			br.ws, br.closeFn = ws, cl
		case 3:
			br.ws = zap.CombineWriteSyncers(mk(fmt.Sprintf("b%d-0", b)), mk(fmt.Sprintf("b%d-1", b)))
		case 5:
			// one locked syncer reached on two paths: directly (the other
			// branch) and as a member of this branch's combined syncer
			other := branches[br.shares]
			other.shared = true
			br.ws = zap.CombineWriteSyncers(mk(fmt.Sprintf("b%d", b)), other.ws)
		case 6:
			// a buffered syncer in front of the locked syncer of another branch:
			// the device holds the lines of both, written whole by each
			other := branches[br.shares]
			other.shared = true
			size := pick(g, 16, 32, 64, 128, 256)
			bufSize = size
			br.bws = &zapcore.BufferedWriteSyncer{WS: other.ws, Size: size, FlushInterval: time.Second}
			br.bws.Clock = clk.For(unsafe.Pointer(br.bws), unsafe.Sizeof(*br.bws))
			br.ws = br.bws
			tickers = append(tickers, br.bws)
			r.Probe("buffered syncer in front of another branch's locked syncer")
		case 4:
			size := pick(g, 16, 32, 64, 128, 256)
			bufSize = size
			br.bws = &zapcore.BufferedWriteSyncer{WS: mk(fmt.Sprintf("b%d", b)), Size: size, FlushInterval: time.Second}
			br.bws.Clock = clk.For(unsafe.Pointer(br.bws), unsafe.Sizeof(*br.bws))
			br.ws = br.bws
			tickers = append(tickers, br.bws)
		}
		if (br.kind == 2 || br.kind == 3) && c.F.Chance(6) {
			// one member of a combined syncer takes only part of what it is given
			// and says so in its count, without an error: it is not judged, the
			// member next to it still receives exactly the intact lines
			s := br.sinks[c.F.Draw(2)]
			for i := 0; i < 6; i++ {
				s.WritePlan = append(s.WritePlan, zsim.Outcome{Short: 1 + c.F.Draw(5)})
			}
			unjudged[s] = true
			c.Fault("member-short-count-without-error")
		}
		var enab zapcore.LevelEnabler = br.level
		if g.Chance(6) {
			// a branch behind a switch: its level is dynamic and enables nothing
			// while the cores, tees and loggers are put together; it is switched
			// on before the first entry is logged
			al := zap.NewAtomicLevelAt(zapcore.InvalidLevel)
			lvl := br.level
			enab = al
			switchOn = append(switchOn, func() { al.SetLevel(lvl) })
			switchOff = append(switchOff, func() { al.SetLevel(zapcore.InvalidLevel) })
			r.Probe("branch whose level is switched on after construction")
		}
		br.core = zapcore.NewCore(newEncoderCaller(br.console, withCaller), br.ws, enab)
		br.refBuf = &bytes.Buffer{}
		br.refCore = zapcore.NewCore(newEncoderCaller(br.console, withCaller), zapcore.AddSync(br.refBuf), br.level)
		branches = append(branches, br)
		cores = append(cores, br.core)
		refCores = append(refCores, br.refCore)
	}
	if len(branches) >= 2 && c.F.Chance(5) {
		fb := branches[c.F.Draw(len(branches))]
		if fb.bws == nil && !fb.shared && fb.shares < 0 {
			fb.flaky = true
			for _, s := range fb.sinks {
				s.FailFrom = 1 + c.F.Draw(4)
			}
			c.Fault("flaky-tee-branch")
		}
	}
	var lopts []zap.Option
	if withCaller {
		lopts = append(lopts, zap.AddCaller())
	}
	allOpts := append(append([]zap.Option{}, lopts...), zap.ErrorOutput(zapcore.AddSync(io.Discard)))
	// Tees of tees: in a quarter of the multi-branch runs two loggers are built
	// on tees that extend one common parent tee (which itself was built by
	// extending a tee), each adding branches of its own. Every branch still
	// receives the full set of the entries logged through the loggers above it.
	forked := forkWanted && len(cores) >= 3
	bases := []*zap.Logger{nil, nil, nil}
	if forked {
		var parent zapcore.Core = cores[0]
		var priv [3][]zapcore.Core
		for bi := 1; bi < len(branches); bi++ {
			branches[bi].fork = g.Weighted(2, 1, 1)
			// the last two branches are private, one to each logger
			if bi >= len(branches)-2 {
				branches[bi].fork = 1 + (len(branches) - 1 - bi)
			}
			if f := branches[bi].fork; f == 0 {
				parent = zapcore.NewTee(parent, cores[bi])
			} else {
				priv[f] = append(priv[f], cores[bi])
			}
		}
		for f := 1; f <= 2; f++ {
			bases[f] = zap.New(zapcore.NewTee(append([]zapcore.Core{parent}, priv[f]...)...), allOpts...)
		}
	} else {
		var core zapcore.Core
		if len(cores) == 1 && g.Chance(2) {
			core = cores[0]
		} else {
			core = zapcore.NewTee(cores...)
		}
		bases[0] = zap.New(core, allOpts...)
	}
	visible := func(br *c04branch, tk *c04task) bool { return br.fork == 0 || br.fork == tk.fork }
	syncAll := func(sugared bool) {
		for _, b := range bases {
			if b == nil {
				continue
			}
			if sugared {
				_ = b.Sugar().Sync()
			} else {
				_ = b.Sync()
			}
		}
	}

	nTasks := 2 + g.Weighted(4, 3, 1)
	maxCalls := 5
	if c.Tier == "thorough" {
		maxCalls = 8
	}
	unit := 24
	if bufSize > 0 {
		unit = bufSize
	}
	var tasks []*c04task
	for t := 0; t < nTasks; t++ {
		tk := &c04task{variant: g.Draw(10)}
		if forked {
			tk.fork = 1 + g.Draw(2)
		}
		n := 1 + g.Draw(maxCalls)
		for s := 0; s < n; s++ {
			call := &c04call{task: t, seq: s, lvl: stdLevels[g.Weighted(1, 4, 2, 2)], front: g.Draw(nFrontEnds), rich: g.Draw(20) - 10}
			padLen := 0
			switch g.Weighted(4, 3, 1, 1) {
			case 1:
				padLen = g.Draw(unit)
			case 2:
				padLen = unit + g.Draw(unit)
			case 3:
				padLen = 3 * unit
			}
			call.pad = strings.Repeat(string(rune('a'+t)), padLen)
			call.msg = fmt.Sprintf("t%d.s%d:", t, s)
			tk.calls = append(tk.calls, call)
			switch {
			case call.front == fePanicMarshal:
				r.Probe("log call abandoned by a panicking marshaler, recovered")
			case call.front == fePanicRecovered:
				r.Probe("Panic/DPanic entry recovered by the task")
			case call.front == feCheck && s%3 == 2:
				r.Probe("Check/Write with a returning after-hook")
			}
		}
		if len(switchOff) > 0 && g.Chance(2) {
			// postlude (run on the root when the tasks are done): a checked entry
			// whose branch is switched off between Check and Write - it was
			// accepted, so its line is written all the same
			call := &c04call{task: t, seq: n, lvl: zapcore.ErrorLevel, front: feCheck, rich: -1, postlude: true}
			call.msg = fmt.Sprintf("t%d.s%d:", t, n)
			tk.calls = append(tk.calls, call)
			r.Probe("branch switched off between Check and Write")
		}
		tasks = append(tasks, tk)
	}
	syncTask := g.Chance(3)
	tickBudget := 0
	if len(tickers) > 0 {
		tickBudget = g.Draw(4)
	}
	var desc []string
	for b, br := range branches {
		desc = append(desc, fmt.Sprintf("branch%d{>=%s console=%v fork=%d stack=%s}", b, br.level, br.console, br.fork, []string{"Lock(sink)", "Open(1)", "Open(2)", "Combine(2)", "Buffered", "Combine(own, the Lock(sink) of an earlier branch)", "Buffered(the Lock(sink) of an earlier branch)"}[br.kind]))
	}
	c.Describe("%s frag=%d pool=%d tasks=%d syncTask=%v ticks<=%d caller=%v sharedDerived=%v forkedTees=%v policy=%s", strings.Join(desc, " "), frag, poolPol, nTasks, syncTask, tickBudget, withCaller, shared, forked, r.Policy)
	for t, tk := range tasks {
		var b strings.Builder
		fmt.Fprintf(&b, "t%d(variant %d, logger %d):", t, tk.variant, tk.fork)
		for _, cl := range tk.calls {
			fmt.Fprintf(&b, " %s/fe%d/pad%d", cl.lvl, cl.front, len(cl.pad))
		}
		c.Describe("%s", b.String())
	}

	for _, f := range switchOn {
		f() // everything is built (also the derived loggers of shared mode): the switches go on
	}
	// ---- tasks ----
	sharedTL := map[int]*taskLogger{}
	if shared {
		for _, tk := range tasks {
			if sharedTL[tk.fork*16+tk.variant] == nil {
				sharedTL[tk.fork*16+tk.variant] = c04derive(bases[tk.fork], tk.variant, 100+tk.variant)
			}
		}
	}
	for t, tk := range tasks {
		tk := tk
		t := t
		r.Go(fmt.Sprintf("t%d", t), func() {
			var tl *taskLogger
			if shared {
				tl = sharedTL[tk.fork*16+tk.variant].perTask()
			} else {
				tl = c04derive(bases[tk.fork], tk.variant, t)
			}
			for _, call := range tk.calls {
				if call.postlude {
					continue
				}
				c04do(tl, call)
				call.done = true
				zsim.Yield(zsim.KOp, nil)
			}
		})
	}
	if syncTask {
		n := 1 + g.Draw(3)
		r.Go("sync", func() {
			for i := 0; i < n; i++ {
				syncAll(i%2 == 1)
				zsim.Yield(zsim.KOp, nil)
			}
		})
	}
	// a buffered sink may be stopped while logging goes on (its buffer keeps
	// working without the flush loop; the drain phase below stops it again)
	if len(tickers) > 0 && g.Chance(4) {
		victim := tickers[g.Draw(len(tickers))]
		r.Go("stopper", func() {
			zsim.Yield(zsim.KOp, nil)
			if err := victim.Stop(); err != nil {
				c.Fail("C04: Stop of a buffered sink failed on a healthy device", "%v", err)
			}
		})
		c.Fault("stop-while-logging")
	}
	ticks := 0
	if tickBudget > 0 {
		r.AddEvent(&zsim.Event{Name: "tick", Avail: func() bool {
			if ticks >= tickBudget {
				return false
			}
			for _, tk := range clk.Tickers {
				if clk.CanTick(tk) {
					return true
				}
			}
			return false
		}, Fire: func() {
			for _, tk := range clk.Tickers {
				if clk.CanTick(tk) {
					ticks++
					c.Fault("tick")
					clk.Tick(tk)
					return
				}
			}
		}})
	}
	c.Nontrivial = true
	c.Sim()

	// ---- postlude ----
	for t, tk := range tasks {
		for _, call := range tk.calls {
			if !call.postlude || r.Failed() {
				continue
			}
			var tl *taskLogger
			if shared {
				tl = sharedTL[tk.fork*16+tk.variant].perTask()
			} else {
				tl = c04derive(bases[tk.fork], tk.variant, t)
			}
			c04afterCheck = func() {
				for _, f := range switchOff {
					f()
				}
			}
			c04do(tl, call)
			c04afterCheck = nil
			for _, f := range switchOn {
				f()
			}
			call.done = true
		}
	}

	// ---- drain: stop buffered syncers, final sync ----
	for _, br := range branches {
		if br.bws != nil {
			if err := br.bws.Stop(); err != nil {
				c.Fail("C04: Stop of a buffered sink failed on a healthy device", "%v", err)
			}
		}
	}
	syncAll(false)
	for _, br := range branches {
		if br.closeFn != nil {
			br.closeFn()
		}
	}

	// ---- reference: the same calls, sequentially, on private sinks ----
	simsync.SetPolicy(simsync.PoolFresh, 1, 0)
	expects := make([]map[string]*c04call, len(branches))
	for bi, br := range branches {
		refBase := zap.New(br.refCore, lopts...)
		expect := map[string]*c04call{} // reference line -> call
		expects[bi] = expect
		for t, tk := range tasks {
			if !visible(br, tk) {
				continue // this task's logger does not include the branch
			}
			tl := c04derive(refBase, tk.variant, t)
			if shared {
				tl = c04derive(refBase, tk.variant, 100+tk.variant)
			}
			for _, call := range tk.calls {
				br.refBuf.Reset()
				c04do(tl, call)
				line := br.refBuf.String()
				if line == "" {
					continue // not enabled on this branch
				}
				if !strings.HasSuffix(line, "\n") || strings.Count(line, "\n") != 1 {
					c.Fail("C04: reference encoding is not one line", "branch %d call t%d.s%d: %q", bi, call.task, call.seq, line)
					return
				}
				if _, dup := expect[line]; dup {
					c.Fail("C04: harness error: two calls have the same reference line", "%q", line)
					return
				}
				expect[line] = call
			}
		}
	}
	for bi, br := range branches {
		for _, sink := range br.sinks {
			if br.flaky || unjudged[sink] {
				continue
			}
			if br.shared {
				// the device behind the shared locked syncer holds the lines of
				// its own branch and those of every branch combining it
				ex := []map[string]*c04call{expects[bi]}
				for oi, ob := range branches {
					if ob.shares == bi {
						ex = append(ex, expects[oi])
					}
				}
				c04judgeShared(c, bi, sink, ex)
			} else {
				c04judge(c, bi, sink, expects[bi], len(tasks))
			}
			if r.Failed() {
				return
			}
		}
	}
}

// c04judgeShared: a sink written by several branches holds exactly the lines
// of all of them, each as often as branches produce it, intact.
func c04judgeShared(c *Ctx, bi int, sink *zsim.SimSink, expects []map[string]*c04call) {
	want := map[string]int{}
	for _, ex := range expects {
		for line := range ex {
			want[line]++
		}
	}
	got := map[string]int{}
	rest := string(sink.Data)
	ln := 0
	for len(rest) > 0 {
		i := strings.IndexByte(rest, '\n')
		if i < 0 {
			c.Fail("C04: the sink stream ends in an incomplete line", "branch %d sink %s (shared): trailing %q", bi, sink.Name, clipS(rest))
			return
		}
		line := rest[:i+1]
		rest = rest[i+1:]
		ln++
		if want[line] == 0 {
			c.Fail("C04: a sink line is not the intact line of any issued entry (torn, merged, corrupted or foreign)", "branch %d sink %s (shared by %d branches) line %d: %q", bi, sink.Name, len(expects), ln, clipS(line))
			return
		}
		got[line]++
		if got[line] > want[line] {
			c.Fail("C04: an entry reached a sink twice", "branch %d sink %s (shared): %q", bi, sink.Name, clipS(line))
			return
		}
	}
	for line, n := range want {
		if got[line] != n {
			c.Fail("C04: an accepted entry never reached a sink of an enabled branch", "branch %d sink %s (shared by %d branches): %q found %d times, expected %d; sink has %d lines", bi, sink.Name, len(expects), clipS(line), got[line], n, ln)
			return
		}
	}
}

// c04judge: the sink's byte stream consists of exactly the expected lines,
// each once, the lines of one task in issue order.
func c04judge(c *Ctx, bi int, sink *zsim.SimSink, expect map[string]*c04call, nTasks int) {
	data := string(sink.Data)
	seen := map[*c04call]bool{}
	lastSeq := make([]int, nTasks)
	for i := range lastSeq {
		lastSeq[i] = -1
	}
	rest := data
	ln := 0
	for len(rest) > 0 {
		i := strings.IndexByte(rest, '\n')
		if i < 0 {
			c.Fail("C04: the sink stream ends in an incomplete line", "branch %d sink %s: trailing %q", bi, sink.Name, clipS(rest))
			return
		}
		line := rest[:i+1]
		rest = rest[i+1:]
		ln++
		call := expect[line]
		if call == nil {
			c.Fail("C04: a sink line is not the intact line of any issued entry (torn, merged, corrupted or foreign)", "branch %d sink %s line %d: %q", bi, sink.Name, ln, clipS(line))
			return
		}
		if seen[call] {
			c.Fail("C04: an entry reached a sink twice", "branch %d sink %s: entry t%d.s%d", bi, sink.Name, call.task, call.seq)
			return
		}
		seen[call] = true
		if call.seq < lastSeq[call.task] {
			c.Fail("C04: the entries of one goroutine reached the sink out of order", "branch %d sink %s: t%d.s%d after s%d", bi, sink.Name, call.task, call.seq, lastSeq[call.task])
			return
		}
		lastSeq[call.task] = call.seq
		c.MixState(uint64(call.task)<<8 | uint64(call.seq))
	}
	for _, call := range expect {
		if !seen[call] {
			c.Fail("C04: an accepted entry never reached a sink of an enabled branch", "branch %d sink %s: entry t%d.s%d (%s, front end %d) is missing; sink has %d lines", bi, sink.Name, call.task, call.seq, call.lvl, call.front, ln)
			return
		}
	}
}

func clipS(s string) string {
	if len(s) > 160 {
		return s[:160] + "…"
	}
	return s
}

// c04lockerSink: a device whose type embeds a mutex that guards something
// else (a segment list, rotation state); Write and Sync do not take it.
type c04lockerSink struct {
	*zsim.SimSink
	sync.Mutex
}
