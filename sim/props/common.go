// Package props holds one simulated workload + oracle per claimed property and
// the worker that runs them (worker_test.go; built with `go test -c` because
// testing/synctest needs a *testing.T).
package props

import (
	"encoding/json"
	"fmt"
	"os"
	"sort"
	"strings"
	"testing"
	"testing/synctest"
	"time"

	"verif/simsync"
	"verif/zsim"
)

// Ctx is what a property's Run function gets for one simulated run.
type Ctx struct {
	R    *zsim.Run
	G    *zsim.Stream // generation stream
	F    *zsim.Stream // fault stream
	Tier string

	Desc       []string       // readable description of configuration and program
	Nontrivial bool           // set by the workload by its stated rule
	StateFP    uint64         // property specific state fingerprint, mixed into the run fingerprint
	Faults     map[string]int // fault kinds that actually fired
	Known      []string       // known findings met in this run (signatures)
}

func (c *Ctx) Describe(f string, a ...any) {
	c.Desc = append(c.Desc, fmt.Sprintf(f, a...))
	lastDesc = c.Desc
	if descLive {
		// debugging aid for a run that never ends: the description as it is made
		fmt.Fprintln(os.Stderr, "CASE-LIVE", c.Desc[len(c.Desc)-1])
	}
}

// lastDesc: the description of the run in progress, for reports written by a
// deferred function when the testing package ends the test early (race builds).
var lastDesc []string

var descLive = os.Getenv("ZSIM_DESCLIVE") != ""

// ignoreLeak is set by a workload that simulated the death of the process:
// goroutines of the dead process that are still blocked when the bubble ends
// are not a leak. Reset at the start of every run.
var ignoreLeak bool

func (c *Ctx) Fault(kind string) { c.Faults[kind]++ }
func (c *Ctx) MixState(x uint64) { c.StateFP = (c.StateFP ^ x) * 1099511628211 }
func (c *Ctx) Fail(sig, f string, a ...any) {
	c.R.Fail(sig, fmt.Sprintf(f, a...))
}

// Prop describes one property's simulation.
type Prop struct {
	ID   string
	Run  func(c *Ctx)
	Rule string // how cases are generated and what makes one distinct and non-trivial
	Real []string
	Stub []string
}

var Props = map[string]*Prop{}

func register(p *Prop) { Props[p.ID] = p }

// Result of one run.
type Result struct {
	Viol       *zsim.Violation
	Desc       []string
	FP         uint64
	Nontrivial bool
	Steps      int64
	Preempt    int
	SimNanos   int64
	Faults     map[string]int
	Probes     map[string]int
	Tape       zsim.TapeData
	Abandoned  int
	Policy     string
	Known      []string
}

// ExecOne runs one simulated execution of p on the given tape in a fresh bubble.
func ExecOne(t *testing.T, p *Prop, tape *zsim.Tape, tier string) *Result {
	res := &Result{Faults: map[string]int{}}
	lastDesc = nil
	ignoreLeak = false
	func() {
		defer func() {
			// the end-of-bubble deadlock panic after an aborted run with
			// abandoned goroutines lands here
			if e := recover(); e != nil {
				if res.Viol == nil {
					msg := fmt.Sprint(e)
					if strings.Contains(msg, "blocked goroutines remain") && ignoreLeak {
						// a simulated process death leaves the dead process's
						// background goroutines where they were
					} else if strings.Contains(msg, "blocked goroutines remain") {
						res.Viol = &zsim.Violation{Sig: "goroutine leak: goroutines started during the run are still blocked after everything was stopped", Detail: msg}
					} else {
						res.Viol = &zsim.Violation{Sig: "panic at the end of the run", Detail: msg}
					}
				}
			}
		}()
		synctest.Test(t, func(t *testing.T) {
			r := zsim.NewRun(tape)
			c := &Ctx{R: r, G: &tape.Gen, F: &tape.Fault, Tier: tier, Faults: res.Faults}
			r.Policy = zsim.DrawPolicy(c.G)
			simsync.SetPolicy(simsync.PoolLIFO, 1, 0)
			defer r.Uninstall()
			func() {
				defer func() {
					if e := recover(); e != nil {
						if _, ok := e.(abortRun); ok {
							return
						}
						r.Fail("panic on the root goroutine", fmt.Sprintf("%v\n%s", e, stack()))
						r.Finish()
					}
				}()
				p.Run(c)
			}()
			r.Finish()
			if v := r.Violation(); v != nil {
				vv := *v
				vv.Trace = r.TraceString(60)
				res.Viol = &vv
			}
			if descLive {
				fmt.Fprintf(os.Stderr, "TRACE-LIVE\n%s\n", r.TraceString(200))
			}
			res.Desc = c.Desc
			res.FP = zsim.Mix(r.Fingerprint(), c.StateFP)
			res.Nontrivial = c.Nontrivial
			res.Steps = r.Steps()
			res.Preempt = r.Preempt
			res.SimNanos = r.SimNanos
			res.Probes = r.Probes
			res.Abandoned = r.Abandoned
			res.Policy = r.Policy.String()
			res.Known = c.Known
		})
	}()
	res.Tape = tape.Data()
	return res
}

type abortRun struct{}

// Sim runs the scheduler; if the run was aborted by a violation the workload
// is unwound (no point evaluating end-of-run oracles on a broken run).
func (c *Ctx) Sim() {
	c.R.Install()
	c.R.Loop()
	c.R.Finish()
	if c.R.Failed() {
		panic(abortRun{})
	}
}

func stack() string {
	var b strings.Builder
	// small helper; runtime/debug.Stack is fine outside RaceDisable regions
	b.WriteString(string(debugStack()))
	return b.String()
}

// ---- small helpers shared by workloads ----

func pick[T any](g *zsim.Stream, xs ...T) T { return xs[g.Draw(len(xs))] }

func sortedKeys(m map[string]int) []string {
	ks := make([]string, 0, len(m))
	for k := range m {
		ks = append(ks, k)
	}
	sort.Strings(ks)
	return ks
}

// epoch draws a simulated epoch so that no oracle can depend on an absolute date.
func drawEpoch(g *zsim.Stream) time.Time {
	base := []int64{0, 1_000_000_000, 1_700_000_000, 4_000_000_000, -5_000_000}[g.Draw(5)]
	return time.Unix(base+int64(g.Draw(1000)), int64(g.Draw(1000))*1_000_000).UTC()
}

// ---- known findings ----
//
// A workload that meets a violation whose exact signature is listed as an
// open finding in known_findings.json counts it and carries on (so that a
// recorded defect does not stop the search for other violations of the same
// property). The file is read once per process and never written.

var knownOpen = func() map[string]bool {
	m := map[string]bool{}
	path := os.Getenv("ZSIM_KNOWN_FILE")
	if path == "" {
		return m
	}
	b, err := os.ReadFile(path)
	if err != nil {
		return m
	}
	var f struct {
		Findings []struct {
			Status, Property, Signature string
		} `json:"findings"`
	}
	if json.Unmarshal(b, &f) == nil {
		for _, x := range f.Findings {
			if x.Status == "open" {
				m[x.Signature] = true
			}
		}
	}
	return m
}()

func (c *Ctx) known(sig string) bool {
	if !knownOpen[sig] {
		return false
	}
	for _, k := range c.Known {
		if k == sig {
			return true
		}
	}
	c.Known = append(c.Known, sig)
	return true
}

func clip(b []byte) string {
	if len(b) > 100 {
		return string(b[:100]) + "…"
	}
	return string(b)
}
