package props

import (
	"fmt"
	"net/url"
	"sync"

	"go.uber.org/zap"
	"go.uber.org/zap/zapcore"

	"verif/zsim"
)

// The "zsim" sink scheme is registered once per process; its factory
// dispatches on the URL host to the sink table of the run in progress.
var (
	simSchemeOnce sync.Once
	simSinkTable  map[string]func(u *url.URL) (zap.Sink, error)
)

func useSimScheme(table map[string]func(u *url.URL) (zap.Sink, error)) {
	simSchemeOnce.Do(func() {
		if err := zap.RegisterSink("zsim", func(u *url.URL) (zap.Sink, error) {
			f := simSinkTable[u.Host]
			if f == nil {
				return nil, fmt.Errorf("zsim: no sink %q in this run", u.Host)
			}
			return f(u)
		}); err != nil {
			panic(err)
		}
		// the shortest legal scheme name, one letter, serves the same table
		if err := zap.RegisterSink("z", func(u *url.URL) (zap.Sink, error) {
			f := simSinkTable[u.Host]
			if f == nil {
				return nil, fmt.Errorf("z: no sink %q in this run", u.Host)
			}
			return f(u)
		}); err != nil {
			panic(err)
		}
	})
	simSinkTable = table
}

// encCfg: no time key (so that output is a function of the call alone), no
// caller, no stack trace.
func encCfg() zapcore.EncoderConfig {
	return zapcore.EncoderConfig{
		MessageKey:     "msg",
		LevelKey:       "level",
		NameKey:        "logger",
		LineEnding:     "\n",
		EncodeLevel:    zapcore.LowercaseLevelEncoder,
		EncodeDuration: zapcore.StringDurationEncoder,
	}
}

func newEncoder(console bool) zapcore.Encoder {
	if console {
		return zapcore.NewConsoleEncoder(encCfg())
	}
	return zapcore.NewJSONEncoder(encCfg())
}

// newEncoderCaller: as newEncoder, optionally with the caller column/key.
func newEncoderCaller(console, caller bool) zapcore.Encoder {
	cfg := encCfg()
	if caller {
		cfg.CallerKey = "caller"
		cfg.EncodeCaller = zapcore.ShortCallerEncoder
	}
	if console {
		return zapcore.NewConsoleEncoder(cfg)
	}
	return zapcore.NewJSONEncoder(cfg)
}

var stdLevels = []zapcore.Level{zapcore.DebugLevel, zapcore.InfoLevel, zapcore.WarnLevel, zapcore.ErrorLevel}

func simSinkFor(r *zsim.Run, g *zsim.Stream, name string, frag int) *zsim.SimSink {
	return zsim.NewSimSink(r, name, frag, uint64(g.Draw(1<<16))+1)
}
