package props

import (
	"bytes"
	"encoding/json"
	"errors"
	"fmt"
	"go.uber.org/zap/zapio"
	"go.uber.org/zap/zaptest/observer"
	"io"
	"log/slog"
	"strings"
	"time"
	"unsafe"

	"go.uber.org/multierr"
	"go.uber.org/zap"
	"go.uber.org/zap/exp/zapslog"
	"go.uber.org/zap/zapcore"

	"verif/simsync"
	"verif/zsim"
)

// C08 — output is independent of logging history and of pooled-object reuse.
//
// The probe call is executed first under the "never reuse" pool policy (the
// reference bytes) and then again, from the same call site, after and while a
// history of other operations runs under a reusing policy with drop events
// and poison-on-put. Both are executions of the real code; no expected value
// is hand-written.

func init() {
	register(&Prop{
		ID:  "C08",
		Run: runC08,
		Rule: "one case = (probe recipe: encoder, derived context, field family incl. reflected values, errors, arrays, open namespaces, optional caller and stack trace at a drawn depth below or above the pooled 64-frame capacity; history: 4-30 operations drawn from small and large entries, namespaces left open, reflected values, marshalers failing half-way, error arrays, deep stack captures, console entries, With clones, sugared bad-argument entries, log calls whose user marshaler panics (recovered by the caller), on other loggers and on the probe logger, by the probe task and 0-2 concurrent tasks; pool policy LIFO/FIFO/random with optional capacity; GC drop events) under one seeded schedule; " +
			"non-trivial = at least 2 repeated probes and at least 4 history operations ran; distinct = distinct hash of (probe recipe, history, scheduling decisions)",
		Real: []string{"JSON and console encoders (getJSONEncoder/putJSONEncoder, clone, reflection buffer, slice encoder)", "buffer pool, CheckedEntry pool, error-array element pools, stack pool (internal/stacktrace)", "ioCore.Write buffer ownership, Logger.check"},
		Stub: []string{"sync.Pool (simsync.Pool: fresh for the reference, then LIFO/FIFO/random with poison, fingerprints and drop events)", "sinks", "clock (fixed)"},
	})
}

// c8reflEncoder: reflected-value encoders built by one factory and differing
// only in captured state (as an application parameterising indentation or
// redaction per logger would).
//
//go:noinline
func c8reflEncoder(indent string) func(io.Writer) zapcore.ReflectedEncoder {
	return func(w io.Writer) zapcore.ReflectedEncoder {
		enc := json.NewEncoder(w)
		enc.SetIndent("", indent)
		return enc
	}
}

type c8failing struct{ k int }

func (f c8failing) MarshalLogObject(enc zapcore.ObjectEncoder) error {
	for i := 0; i < f.k; i++ {
		enc.AddInt(fmt.Sprintf("m%d", i), i)
	}
	enc.OpenNamespace("half")
	enc.AddString("x", "y")
	return errors.New("c8 marshaler gave up")
}

type c8nested struct{ d int }

func (n c8nested) MarshalLogObject(enc zapcore.ObjectEncoder) error {
	enc.AddInt("d", n.d)
	if n.d > 0 {
		enc.OpenNamespace("deeper")
		return enc.AddObject("child", c8nested{n.d - 1})
	}
	return enc.AddArray("arr", c8arr{3})
}

type c8arr struct{ n int }

func (a c8arr) MarshalLogArray(enc zapcore.ArrayEncoder) error {
	for i := 0; i < a.n; i++ {
		enc.AppendInt(i)
		enc.AppendString("s")
	}
	return nil
}

type c8refl struct {
	A int
	B string
	C map[string][]int
}

type c8world struct {
	c                 *Ctx
	failedOpen        bool // this run has logged an unencodable value inside a container of open type
	probeLg           *zap.Logger
	failing           *zap.Logger // over a device whose writes fail
	failingCore       zapcore.Core
	conPanic          *zap.Logger   // console logger whose header callbacks panic for some entries
	wide              *zap.Logger   // logger over a tee of ten cores
	errFailing        *zsim.SimSink // error output of the logger over the failing device
	errOthers         *zsim.SimSink // error output of every other logger: nothing is ever due there
	failWant          int           // failed writes that went through the failing logger (one report each)
	probeSk           *zsim.SimSink
	others            []*zap.Logger
	sinks             []*zsim.SimSink
	recipe            int
	hookWant, hookGot int
	depth             int
	level             zapcore.Level
}

// c8holder: a struct with a member of open type.
type c8holder struct{ V any }

//go:noinline
func c8recurse(d int, f func()) {
	if d <= 0 {
		f()
		return
	}
	c8recurse(d-1, f)
}

func (w *c8world) probeFields() []zap.Field {
	switch w.recipe {
	case 0:
		return []zap.Field{zap.Int("i", 42), zap.String("s", "probe"), zap.Duration("d", 3*time.Second)}
	case 1:
		return []zap.Field{zap.Reflect("r", c8refl{1, "x", map[string][]int{"k": {1, 2}}}), zap.Int("after", 1)}
	case 2:
		return []zap.Field{zap.Error(errors.New("probe error")), zap.Errors("errs", []error{errors.New("e1"), errors.New("e2")}), zap.NamedError("group", multierr.Combine(errors.New("g1"), errors.New("g2"), errors.New("g3")))}
	case 3:
		return []zap.Field{zap.Object("o", c8nested{2}), zap.Namespace("ns"), zap.Int("inside", 1)}
	case 4:
		return []zap.Field{zap.Strings("ss", []string{"a", "b"}), zap.Ints("is", []int{1, 2, 3}), zap.Array("arr", c8arr{2}), zap.Bools("bs", []bool{true})}
	case 5:
		return []zap.Field{zap.Object("bad", c8failing{2}), zap.Int("next", 2)}
	case 6:
		return nil
	case 8:
		return []zap.Field{zap.Reflect("bad", make(chan int)), zap.Int("after", 1), zap.Reflect("good", c8refl{2, "y", nil})}
	case 10:
		// containers of open type with well-formed content
		return []zap.Field{zap.Any("m", map[string]any{"user": "alice", "n": 1}), zap.Any("l", []any{1, "two"}), zap.Reflect("h", c8holder{V: 3}), zap.Reflect("p", &c8holder{V: "x"})}
	case 9:
		// a reflected value whose MarshalJSON is a yield point: other tasks run
		// while its rendering sits in the encoder's scratch space
		return []zap.Field{zap.Reflect("y", yieldJSON{7}), zap.Int("after", 1), zap.Reflect("y2", yieldJSON{8})}
	}
	return []zap.Field{zap.Binary("b", []byte{1, 2, 3}), zap.Float64("f", 1.5), zap.Time("t", time.Unix(1700000000, 0).UTC()), zap.Any("any", []any{1, "two"})}
}

// c8mine: the bytes the named task wrote to the sink since call number from.
// Relatives of the probe logger (history kind 20) share its device and may be
// in the middle of a write of their own at any time; the device's call record
// tells whose bytes are whose.
func c8mine(s *zsim.SimSink, from int, task string) []byte {
	var out []byte
	for _, call := range s.Calls[from:] {
		if call.Kind == 'W' && call.Task == task {
			out = append(out, s.Data[call.Off:call.Off+call.Len]...)
		}
	}
	return out
}

// callProbe is the single call site of the probe.
func (w *c8world) callProbe() {
	c8recurse(w.depth, func() {
		w.probeLg.Log(w.level, "probe message", w.probeFields()...)
	})
}

func (w *c8world) history(kind, a int, lg *zap.Logger) {
	switch kind {
	case 0:
		lg.Info("small", zap.Int("a", a))
	case 1:
		lg.Info("large", zap.String("pad", strings.Repeat("x", 1500+a*700)), zap.Int("a", a))
	case 2:
		lg.Info("open namespaces", zap.Namespace("n1"), zap.Object("o", c8nested{1 + a%3}), zap.Namespace("n2"), zap.Namespace("n3"))
	case 3:
		lg.Info("reflected", zap.Reflect("r", c8refl{a, strings.Repeat("r", 10*a), map[string][]int{"z": {a}}}), zap.Any("m", map[string]any{"a": a}))
	case 4:
		lg.Info("failing marshaler", zap.Object("bad", c8failing{a % 4}), zap.Array("arr", c8arr{a % 5}))
	case 5:
		lg.Warn("errors", zap.Errors("errs", []error{errors.New("x"), nil, fmt.Errorf("wrap: %w", errors.New("y"))}), zap.Error(multierr.Combine(errors.New("other-1"), errors.New("other-2"))))
		if a%2 == 1 {
			// error lists and groups with a member whose Error method panics
			// (zap reports that member's failure and goes on)
			lg.Warn("errors with a panicking member", zap.Errors("errs", []error{errors.New("x"), c8panicErr{}, errors.New("z")}), zap.NamedError("group", c8errGroup{[]error{errors.New("g1"), c8panicErr{}, errors.New("g3")}}))
		}
	case 6:
		c8recurse([]int{60, 67, 74, 130, 520, 1040}[a%6], func() { lg.Error("deep stack") })
	case 7:
		lg.Info("fields for the console", zap.Strings("ss", []string{"p", "q"}), zap.Int("a", a), zap.Namespace("cn"), zap.Bool("b", true))
	case 8:
		lg.With(zap.Int("w", a), zap.Namespace("wn")).Info("clone", zap.Int("c", a))
	case 9:
		lg.Sugar().Infow("bad args", "k1", a, 17, "non-string key", "dangling")
	case 10:
		w.probeLg.Info("other entry on the probe logger", zap.Int("a", a), zap.Namespace("left-open"))
	case 11:
		if ce := lg.Check(zapcore.InfoLevel, "checked"); ce != nil {
			ce.Write(zap.Int("a", a))
		}
	case 15:
		// a destination that fails: the error path of the IO core must leave the pools alone
		switch a % 3 {
		case 0:
			w.failing.Info("to a failing device", zap.Int("a", a))
		case 1:
			w.failing.DPanic("above Error to a failing device", zap.Int("a", a))
		default:
			w.failing.Error("with a reflected field to a failing device", zap.Reflect("r", c8refl{a, "f", nil}))
		}
		w.failWant++
	case 22:
		// a logger chained into another one through a zapio.Writer, with an
		// encoder that ends its lines with nothing: the writer holds the bytes of
		// one entry while the buffer they came in is back in the pool and other
		// entries are encoded; what arrives downstream is what was logged
		oc, logs := observer.New(zapcore.DebugLevel)
		wr := &zapio.Writer{Log: zap.New(oc), Level: zapcore.InfoLevel}
		cfg := encCfg()
		cfg.SkipLineEnding = true
		up := zap.New(zapcore.NewCore(zapcore.NewJSONEncoder(cfg), zapcore.AddSync(wr), zapcore.DebugLevel))
		up.Info("alpha", zap.Int("a", a))
		lg.Info("between the two halves of a chained line", zap.String("pad", strings.Repeat("y", 40+a)))
		up.Info("beta")
		wr.Close()
		want := fmt.Sprintf(`{"level":"info","msg":"alpha","a":%d}{"level":"info","msg":"beta"}`, a)
		es := logs.All()
		if len(es) != 1 || es[0].Message != want {
			var got []string
			for _, e := range es {
				got = append(got, e.Message)
			}
			w.c.Fail("C08: bytes handed to a sink changed after the call that produced them returned", "logger -> zapio.Writer -> logger with lines without an ending: downstream recorded %q, expected [%q]", got, want)
		}
		w.c.R.Probe("logger chained into another through zapio.Writer, lines without an ending")
	case 21:
		// a lazily derived sugared logger whose first use comes after other
		// sugared calls with context (its fields are evaluated then, not before):
		// what it prints is what it was given
		oc, logs := observer.New(zapcore.DebugLevel)
		base := zap.New(oc)
		lz := base.Sugar().WithLazy("request", fmt.Sprintf("r-%d", a), "attempt", a)
		lg.Sugar().Infow("between derivation and first use", "k", "v", "n", 7)
		base.Sugar().With("other", a, "more", "m").Info("a sibling derived in between")
		lz.Infow("first use of the lazy logger", "ok", true)
		for _, e := range logs.FilterMessage("first use of the lazy logger").All() {
			m := e.ContextMap()
			if len(m) != 3 || m["request"] != fmt.Sprintf("r-%d", a) || m["attempt"] != int64(a) || m["ok"] != true {
				w.c.Fail("C08: the fields of a lazily derived logger depend on the calls made before its first use", "SugaredLogger.WithLazy(request=r-%d, attempt=%d), then other sugared calls, then Infow(ok=true): recorded %v", a, a, m)
			}
		}
		w.c.R.Probe("lazily derived sugared logger first used after other sugared calls")
	case 20:
		// a relative of the probe logger logs a reflected value whose marshaler
		// is a yield point
		w.probeLg.With(zap.Int("sib", a)).Info("reflected value with a yielding marshaler, on a sibling", zap.Reflect("r", yieldJSON{100 + a}))
	case 19:
		// an entry accepted by ten cores at once (a wide tee on another logger)
		w.wide.Info("through a tee of ten cores", zap.Int("a", a))
	case 18:
		// a console entry whose header callback panics after part of the header
		// has been collected; recovered by the application
		func() {
			defer func() { _ = recover() }()
			switch a % 3 {
			case 0:
				w.conPanic.Warn("the level encoder panics", zap.Int("a", a))
			case 1:
				w.conPanic.Named("boom").Info("the name encoder panics", zap.Int("a", a))
			default:
				w.conPanic.Named("fine").Info("neither does", zap.Int("a", a))
			}
		}()
	case 17:
		// a log call that panics half-way through encoding (namespaces open,
		// encoders and buffers borrowed from the pools) and is recovered by the
		// application
		func() {
			defer func() { _ = recover() }()
			switch a % 3 {
			case 0:
				lg.Info("panics while encoding", zap.Namespace("pn1"), zap.Namespace("pn2"), zap.Array("boom", c8panicArr{}))
			case 1:
				lg.With(zap.Namespace("ctxns")).Info("panics while encoding", zap.Int("before", a), zap.Inline(c8panicObj{}))
			default:
				lg.Info("panics while encoding", zap.Namespace("pn"), zap.Object("o", c8panicObj{}), zap.Int("after", a))
			}
		}()
	case 16:
		// the same failing device, but reached without a Logger (as the slog
		// handler and other direct users of Core.Check/CheckedEntry.Write do):
		// such an entry has no error output, its failure is reported nowhere
		if a%2 == 0 {
			ent := zapcore.Entry{Level: zapcore.InfoLevel, Time: time.Unix(1700000000, 0).UTC(), Message: "straight through the core of a failing device"}
			if ce := w.failingCore.Check(ent, nil); ce != nil {
				ce.Write(zap.Int("a", a))
			}
		} else {
			slog.New(zapslog.NewHandler(w.failingCore)).Info("through the slog handler to a failing device", "a", a)
		}
	case 14:
		w.probeLg.Info("entry without any field on the probe logger")
	case 13:
		// reflection that fails, alone or followed by more fields
		switch a % 5 {
		case 3:
			// the value fails, not its type: the same containers hold well-formed
			// values in other entries (and in the probe)
			w.failedOpen = true
			lg.Info("unencodable member of a list", zap.Any("bad", []any{1, make(chan int)}), zap.Any("m", map[string]any{"c": complex(1, 2)}))
		case 4:
			w.failedOpen = true
			lg.Info("unencodable value in an open field", zap.Reflect("bad", c8holder{V: func() {}}), zap.Reflect("p", &c8holder{V: make(chan int)}))
		case 0:
			lg.Info("unencodable reflected value", zap.Reflect("bad", make(chan int)))
		case 1:
			lg.Info("unencodable then encodable", zap.Any("bad", map[string]any{"f": func() {}}), zap.Reflect("good", c8refl{a, "g", nil}))
		default:
			lg.Info("encodable then unencodable", zap.Reflect("good", c8refl{a, "g", nil}), zap.Reflect("bad", make(chan int)), zap.Int("a", a))
		}
	case 12:
		// an entry with a terminal hook attached to its (pooled) checked entry
		w.hookWant++
		lg.WithOptions(zap.WithPanicHook(c8hook{w})).Panic("panic-level entry with a counting hook", zap.Int("a", a))
	}
}

type c8hook struct{ w *c8world }

func (h c8hook) OnWrite(*zapcore.CheckedEntry, []zapcore.Field) { h.w.hookGot++ }

const c8kinds = 23

// c8panicArr: a user marshaler with a bug. zap does not contain panics of
// object and array marshalers; the application (an HTTP server, say) recovers
// and carries on logging.
type c8panicArr struct{}

func (c8panicArr) MarshalLogArray(zapcore.ArrayEncoder) error { panic("c8: marshaler bug") }

type c8panicErr struct{}

func (c8panicErr) Error() string { panic("c8: an error value whose Error method panics") }

// c8errGroup: an error group whose own text does not depend on its members.
type c8errGroup struct{ errs []error }

func (g c8errGroup) Error() string   { return "a group of errors" }
func (g c8errGroup) Errors() []error { return g.errs }

type c8panicObj struct{}

func (c8panicObj) MarshalLogObject(zapcore.ObjectEncoder) error { panic("c8: marshaler bug") }

// c8zoned: the simulated clock seen from another time zone.
type c8zoned struct {
	zapcore.Clock
	loc *time.Location
}

func (z c8zoned) Now() time.Time { return z.Clock.Now().In(z.loc) }

func runC08(c *Ctx) {
	g, r := c.G, c.R
	w := &c8world{c: c}
	// the run starts on empty pools under the "never reuse" policy
	simsync.SetPolicy(simsync.PoolFresh, 1, 0)
	done := guardOn(c)
	defer done()
	clk := zsim.NewSimClock(r, drawEpoch(g))
	encCfgT := encCfg()
	encCfgT.TimeKey = "ts"
	encCfgT.EncodeTime = []zapcore.TimeEncoder{zapcore.ISO8601TimeEncoder, zapcore.RFC3339TimeEncoder, zapcore.RFC3339NanoTimeEncoder, zapcore.EpochNanosTimeEncoder}[g.Weighted(3, 2, 2, 1)]
	encCfgT.CallerKey = "caller"
	encCfgT.EncodeCaller = zapcore.ShortCallerEncoder
	encCfgT.StacktraceKey = "stack"
	encCfgT.FunctionKey = "fn"
	console := g.Chance(3)
	customRefl := g.Chance(3)
	mkEncI := func(con bool, indent string) zapcore.Encoder {
		cfg := encCfgT
		if customRefl {
			cfg.NewReflectedEncoder = c8reflEncoder(indent)
		}
		if con {
			return zapcore.NewConsoleEncoder(cfg)
		}
		return zapcore.NewJSONEncoder(cfg)
	}
	mkEnc := func(con bool) zapcore.Encoder { return mkEncI(con, "") }
	w.probeSk = zsim.NewSimSink(r, "probe", 1+g.Draw(2), 11)
	r.Label(unsafe.Pointer(w.probeSk), "probe")
	w.recipe = g.Draw(11)
	w.level = pick(g, zapcore.InfoLevel, zapcore.ErrorLevel)
	var popts []zap.Option
	popts = append(popts, zap.WithClock(clk))
	stackOn := g.Chance(2)
	if stackOn {
		popts = append(popts, zap.AddStacktrace(zapcore.ErrorLevel))
		w.depth = pick(g, 0, 3, 40, 61, 62, 63, 64, 65, 70, 130, 130, 600, 1100, 1500)
	}
	if g.Chance(2) {
		popts = append(popts, zap.AddCaller())
	}
	w.probeLg = zap.New(zapcore.NewCore(mkEnc(console), zapcore.Lock(w.probeSk), zapcore.DebugLevel), popts...)
	deriv := g.Draw(6)
	if w.recipe == 9 && g.Chance(2) {
		deriv = 5
	}
	switch deriv {
	case 5:
		// a context that holds a reflected value (the context encoder has used
		// its reflection scratch space)
		w.probeLg = w.probeLg.With(zap.Reflect("build", map[string]int{"n": 1}), zap.Int("z", 1))
	case 4:
		// a stored context larger than a pooled buffer's initial kilobyte: it is
		// copied into every line in one piece
		w.probeLg = w.probeLg.With(zap.String("bigctx", strings.Repeat("c", pick(g, 1000, 1023, 1024, 1025, 1500, 4000))), zap.Int("after", 1))
		c.R.Probe("probe logger with a context of about 1-4 KiB")
	case 1:
		w.probeLg = w.probeLg.With(zap.Int("ctx", 1), zap.String("who", "probe"))
	case 2:
		w.probeLg = w.probeLg.Named("p").With(zap.Namespace("pn"))
	case 3:
		w.probeLg = w.probeLg.WithLazy(zap.Object("lazy", c8nested{1}))
	}
	w.errOthers = zsim.NewSimSink(r, "errout-others", 1, 31)
	w.errFailing = zsim.NewSimSink(r, "errout-failing", 1, 33)
	for i := 0; i < 3; i++ {
		s := zsim.NewSimSink(r, fmt.Sprintf("other%d", i), 1+g.Draw(3), uint64(i)+21)
		w.sinks = append(w.sinks, s)
		// the other loggers live in other time zones: the same instants, rendered
		// with another offset
		var oclk zapcore.Clock = clk
		if i > 0 {
			oclk = c8zoned{clk, time.FixedZone("zone", []int{0, 5 * 3600, -8 * 3600}[i])}
		}
		opts := []zap.Option{zap.WithClock(oclk), zap.AddStacktrace(zapcore.ErrorLevel), zap.ErrorOutput(zapcore.Lock(w.errOthers))}
		if i == 1 {
			opts = append(opts, zap.AddCaller())
		}
		w.others = append(w.others, zap.New(zapcore.NewCore(mkEncI(i == 2, []string{" ", "\t", "  "}[i]), zapcore.Lock(s), zapcore.DebugLevel), opts...))
	}
	{
		fs := zsim.NewSimSink(r, "failing", 1, 77)
		fs.FailFrom = 1
		w.failingCore = zapcore.NewCore(mkEnc(g.Chance(2)), zapcore.Lock(fs), zapcore.DebugLevel)
		w.failing = zap.New(w.failingCore, zap.WithClock(clk), zap.ErrorOutput(zapcore.Lock(w.errFailing)))
	}
	{
		// a console logger whose header callbacks have gaps: the level encoder
		// panics for Warn, the name encoder for one logger name (user code with
		// a bug; the application recovers and carries on)
		cfgP := encCfgT
		cfgP.NameKey = "logger"
		cfgP.EncodeLevel = func(l zapcore.Level, enc zapcore.PrimitiveArrayEncoder) {
			if l == zapcore.WarnLevel {
				panic("c8: the level encoder has no entry for this level")
			}
			zapcore.LowercaseLevelEncoder(l, enc)
		}
		cfgP.EncodeName = func(n string, enc zapcore.PrimitiveArrayEncoder) {
			if n == "boom" {
				panic("c8: the name encoder fails")
			}
			zapcore.FullNameEncoder(n, enc)
		}
		ps := zsim.NewSimSink(r, "header-panics", 1, 78)
		w.conPanic = zap.New(zapcore.NewCore(zapcore.NewConsoleEncoder(cfgP), zapcore.Lock(ps), zapcore.DebugLevel), zap.WithClock(clk), zap.AddCaller())
	}
	{
		var cs []zapcore.Core
		for i := 0; i < 10; i++ {
			cs = append(cs, zapcore.NewCore(mkEnc(i%3 == 2), zapcore.Lock(zsim.NewSimSink(r, fmt.Sprintf("wide%d", i), 1, uint64(80+i))), zapcore.DebugLevel))
		}
		w.wide = zap.New(zapcore.NewTee(cs...), zap.WithClock(clk))
	}
	// after the reference call the pools switch to a reusing policy
	policy := pick(g, simsync.PoolLIFO, simsync.PoolLIFO, simsync.PoolFIFO, simsync.PoolRandom)
	capN := pick(g, 0, 0, 1, 2, 4)
	polSeed := uint64(g.Draw(1<<16)) + 1

	type step struct {
		probe   bool
		kind, a int
		lg      int
	}
	maxHist := 12
	if c.Tier == "thorough" {
		maxHist = 30
	}
	nOthers := g.Weighted(3, 2, 1)
	gen := func(n int, allowProbe bool) []step {
		var out []step
		for i := 0; i < n; i++ {
			if allowProbe && g.Chance(4) {
				out = append(out, step{probe: true})
				continue
			}
			st := step{kind: g.Draw(c8kinds), a: g.Draw(6), lg: g.Draw(3)}
			if w.recipe == 9 && g.Chance(3) {
				st.kind = 20 // reflected values with yielding marshalers on both sides
			}
			if w.recipe == 10 && g.Chance(3) {
				st.kind, st.a = 13, 3+g.Draw(2) // failing values of the probe's own container types
			}
			out = append(out, st)
		}
		return out
	}
	main := append([]step{{probe: true}}, gen(4+g.Draw(maxHist), true)...)
	main = append(main, step{probe: true})
	var otherProgs [][]step
	for o := 0; o < nOthers; o++ {
		otherProgs = append(otherProgs, gen(2+g.Draw(maxHist), false))
	}
	dropBudget := g.Draw(3)
	var hd []string
	for _, s := range main {
		if s.probe {
			hd = append(hd, "PROBE")
		} else {
			hd = append(hd, fmt.Sprintf("h%d(%d)", s.kind, s.a))
			c.MixState(uint64(s.kind)<<8 | uint64(s.a))
		}
	}
	c.Describe("probe{recipe=%d level=%s console=%v stack=%v depth=%d} pool{policy=%d cap=%d} others=%d drops<=%d policy=%s", w.recipe, w.level, console, stackOn, w.depth, policy, capN, nOthers, dropBudget, r.Policy)
	c.Describe("main: %s", strings.Join(hd, " "))
	c.MixState(uint64(w.recipe)<<24 | uint64(w.depth)<<8 | uint64(policy))

	gate := r.NewGate()
	refDone, opened := false, false
	var ref []byte
	probes, hist := 0, 0
	r.Go("main", func() {
		for i, s := range main {
			if s.probe {
				before := len(w.probeSk.Calls)
				w.callProbe()
				out := c8mine(w.probeSk, before, "main")
				if w.recipe == 10 && w.failedOpen && bytes.Contains(out, []byte(`Error":`)) {
					// the differential oracle has no notion of what the bytes should be:
					// state that outlives a run (process-wide, keyed by type, say) spoils
					// the first rendering of every later run as well. For the recipe
					// whose reflected values are all well-formed there is one thing it
					// can say on its own: none of them is reported as unencodable. (Only
					// when this run itself has logged a failing value of such a type
					// before: a violation has to replay from its own tape.)
					c.Fail("C08: a well-formed reflected value was rendered as a failure", "probe (recipe 10, containers of open type with well-formed content, console=%v): %q", console, clip(out))
					return
				}
				if i == 0 {
					ref = out
					refDone = true
					gate.Wait()
				} else {
					probes++
					if !bytes.Equal(out, ref) {
						c.Fail("C08: the same call produced different bytes after a history of other operations", "probe #%d (recipe %d, console=%v, stack depth %d):\n  first call (fresh pools): %q\n  this call              : %q", probes, w.recipe, console, w.depth, clipDiff(ref, out), clipDiff(out, ref))
						return
					}
				}
			} else {
				hist++
				w.history(s.kind, s.a, w.others[s.lg])
			}
			zsim.Yield(zsim.KOp, nil)
		}
	})
	for o := range otherProgs {
		prog := otherProgs[o]
		r.Go(fmt.Sprintf("o%d", o), func() {
			gate.Wait()
			for _, s := range prog {
				kind := s.kind
				if kind == 10 || kind == 14 {
					kind = 0 // other tasks stay off the probe logger: its sink offsets belong to the main task
				}
				w.history(kind, s.a, w.others[s.lg])
				zsim.Yield(zsim.KOp, nil)
			}
		})
	}
	r.AddEvent(&zsim.Event{Name: "switch-pool-policy", Avail: func() bool { return refDone && !opened }, Fire: func() {
		opened = true
		simsync.SetPolicy(policy, polSeed, capN)
		r.OpenGate(gate)
	}})
	drops := 0
	r.AddEvent(&zsim.Event{Name: "gc-drops-pools", Avail: func() bool { return opened && drops < dropBudget }, Fire: func() {
		drops++
		simsync.DropAll()
		c.Fault("pool-drop")
	}})
	c.Sim()
	c.Nontrivial = probes >= 2 && hist >= 4
	if w.hookGot != w.hookWant {
		c.Fail("C08: a terminal hook of an earlier entry ran for a later one (state left in a pooled checked entry)", "%d panic-level entries were logged, their hook ran %d times", w.hookWant, w.hookGot)
		return
	}
	// error outputs: a pooled checked entry must not carry one logger's error
	// output into an entry of another logger or of none
	if len(w.errOthers.Data) > 0 {
		c.Fail("C08: a write failure was reported on the error output of a logger the entry did not go through (state left in a pooled checked entry)", "error output of the loggers over healthy devices received %q", clip(w.errOthers.Data))
		return
	}
	// (wording and layout of a report are zap's business: the device's error
	// text is counted, and with no failed entry there must be no report at all)
	if got := bytes.Count(w.errFailing.Data, []byte(zsim.ErrDiskFull.Error())); got < w.failWant || (w.failWant == 0 && len(w.errFailing.Data) > 0) {
		c.Fail("C08: the error output of a logger did not receive exactly the reports of its own failed entries (state left in a pooled checked entry)", "%d entries failed through the logger over the failing device, its error output mentions the failure %d times: %q", w.failWant, got, clip(w.errFailing.Data))
		return
	}
	// read-after-put: poisoned storage must never reach a sink
	for _, s := range append([]*zsim.SimSink{w.probeSk}, w.sinks...) {
		if i := bytes.IndexByte(s.Data, 0xDB); i >= 0 {
			lo := i - 60
			if lo < 0 {
				lo = 0
			}
			c.Fail("pool: bytes of a buffer that had been returned to the pool reached a sink (use after put)", "sink %s offset %d: …%q", s.Name, i, clip(s.Data[lo:]))
			return
		}
	}
	gets, hits, _, dr := simsync.Stats()
	r.Probes["pool gets"] += gets
	r.Probes["pool hits (recycled objects)"] += hits
	r.Probes["pool objects dropped"] += dr
}

// clipDiff shows a around its first difference from b.
func clipDiff(a, b []byte) string {
	i := 0
	for i < len(a) && i < len(b) && a[i] == b[i] {
		i++
	}
	lo := i - 50
	if lo < 0 {
		lo = 0
	}
	hi := i + 120
	if hi > len(a) {
		hi = len(a)
	}
	return fmt.Sprintf("[@%d] %s", i, a[lo:hi])
}
