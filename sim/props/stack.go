package props

import "runtime/debug"

func debugStack() []byte {
	s := debug.Stack()
	if len(s) > 3000 {
		s = s[:3000]
	}
	return s
}
