package props

import (
	"reflect"
	"unsafe"

	"go.uber.org/zap/buffer"

	"verif/simsync"
)

// Pool guard: generic checks on zap's six internal pools, independent of the
// reuse policy. Installed once per process; active only while a workload has
// switched it on (non-race binaries only: the guard keeps shared tables).
//
//   - double put: an object already free is put again (reported by simsync);
//   - write after put: every object is fingerprinted when it becomes free and
//     checked when it is handed out again and at the end of the run;
//   - read after put: the byte storage of a free *buffer.Buffer is poisoned
//     with 0xDB, which the line oracles of the workloads reject.

type poolGuard struct {
	c      *Ctx
	prints map[unsafe.Pointer]uint64
	Poison int
}

var guard *poolGuard

// guardDoublePut: the double-put check alone (no fingerprints, no poison, no
// shared tables), for the race-detector build of C09.
var guardDoublePut *Ctx

func ifacePtr(x any) unsafe.Pointer { return (*[2]unsafe.Pointer)(unsafe.Pointer(&x))[1] }

func bufBytes(b *buffer.Buffer) []byte {
	f := reflect.ValueOf(b).Elem().FieldByName("bs")
	if !f.IsValid() || f.Kind() != reflect.Slice {
		return nil
	}
	s := *(*[]byte)(unsafe.Pointer(f.UnsafeAddr()))
	return s[:cap(s)]
}

func fingerprint(x any) uint64 {
	h := uint64(14695981039346656037)
	mix := func(bs []byte) {
		for _, b := range bs {
			h = (h ^ uint64(b)) * 1099511628211
		}
	}
	v := reflect.ValueOf(x)
	if v.Kind() == reflect.Ptr && !v.IsNil() {
		size := v.Elem().Type().Size()
		mix(unsafe.Slice((*byte)(v.UnsafePointer()), size))
	}
	if b, ok := x.(*buffer.Buffer); ok {
		mix(bufBytes(b))
	}
	return h
}

func init() {
	simsync.OnPut = func(p *simsync.Pool, x any) {
		g := guard
		if g == nil {
			return
		}
		if b, ok := x.(*buffer.Buffer); ok {
			bs := bufBytes(b)
			for i := range bs {
				bs[i] = 0xDB
			}
			g.Poison++
		}
		g.prints[ifacePtr(x)] = fingerprint(x)
	}
	simsync.OnGet = func(p *simsync.Pool, x any) {
		g := guard
		if g == nil {
			return
		}
		ptr := ifacePtr(x)
		if want, ok := g.prints[ptr]; ok {
			if fingerprint(x) != want {
				g.c.Fail("pool: an object was modified while it was in a pool (use after put)", "a %T changed between Put and the next Get", x)
			}
			delete(g.prints, ptr)
		}
	}
	simsync.OnDoublePut = func(p *simsync.Pool, x any) {
		if g := guard; g != nil {
			g.c.Fail("pool: an object was put into its pool twice", "%T", x)
		} else if dc := guardDoublePut; dc != nil {
			dc.Fail("pool: an object was put into its pool twice", "%T", x)
		}
	}
}

// guardOn switches the pool guard on for this run; the returned function
// performs the end-of-run check and switches it off.
func guardOn(c *Ctx) func() {
	g := &poolGuard{c: c, prints: map[unsafe.Pointer]uint64{}}
	guard = g
	return func() {
		simsync.FreeObjects(func(p *simsync.Pool, x any) {
			if want, ok := g.prints[ifacePtr(x)]; ok && fingerprint(x) != want {
				c.Fail("pool: an object was modified while it was in a pool (use after put)", "a %T changed after its Put (found at the end of the run)", x)
			}
		})
		if g.Poison > 0 {
			c.R.Probes["pooled buffers poisoned on put"] += g.Poison
		}
		guard = nil
	}
}
