package props

import (
	"errors"
	"fmt"
	"time"

	"go.uber.org/multierr"
	"go.uber.org/zap"
	"go.uber.org/zap/zapcore"

	"verif/zsim"
)

// richFields returns one of a family of deterministic field lists that
// together exercise every encoder path (typed scalars, times, durations,
// binary, arrays, nested objects with namespaces, errors and error groups,
// Stringers, reflected values, inline and dict fields). Output is a pure
// function of (k, a), so a sequential reference execution reproduces it.
func richFields(k, a int) []zap.Field {
	switch k % 10 {
	case 0:
		return []zap.Field{zap.Int("a", a), zap.String("s", fmt.Sprintf("v%d", a)), zap.Bool("b", a%2 == 0)}
	case 1:
		return []zap.Field{zap.Reflect("r", map[string][]int{"k": {a, a + 1}}), zap.Any("st", struct {
			A int
			B string
		}{a, "x"}), zap.Reflect("yj", yieldJSON{a})}
	case 2:
		return []zap.Field{zap.Error(errors.New("plain")), zap.NamedError("grp", multierr.Combine(errors.New("g1"), fmt.Errorf("g%d", a))), zap.Errors("errs", []error{errors.New("e1"), nil, errors.New("e2")})}
	case 3:
		return []zap.Field{zap.Object("o", c8nested{1 + a%3}), zap.Object("yo", yieldObj{a}), zap.Namespace("ns"), zap.Int("in", a)}
	case 4:
		return []zap.Field{zap.Strings("ss", []string{"a", "b"}), zap.Ints("is", []int{a, 2, 3}), zap.Array("arr", c8arr{1 + a%3}), zap.Durations("ds", []time.Duration{time.Second, time.Duration(a)})}
	case 5:
		return []zap.Field{zap.Binary("bin", []byte{1, 2, byte(a)}), zap.ByteString("bs", []byte("bytes")), zap.Float64("f", 1.5+float64(a)), zap.Complex128("c", complex(1, float64(a)))}
	case 6:
		return []zap.Field{zap.Time("t", time.Unix(1700000000+int64(a), 0).UTC()), zap.Duration("d", time.Duration(a)*time.Millisecond), zap.Stringer("str", time.Duration(a)*time.Second), zap.Stringer("ys", yieldStringer{a})}
	case 7:
		return []zap.Field{zap.Inline(c8nested{0}), zap.Dict("dict", zap.Int("x", a), zap.String("y", "z")), zap.Uint64("u", uint64(a)<<40)}
	case 8:
		return []zap.Field{zap.Object("bad", c8failing{a % 3}), zap.Int("next", a)}
	}
	return []zap.Field{zap.Any("any", []any{a, "two", 3.0}), zap.Reflect("chan", nil), zap.Skip(), zap.Int8("i8", int8(a))}
}

// User call-backs are yield points: a marshaler, Stringer or json.Marshaler
// written by the application may block or be pre-empted, so the scheduler may
// switch tasks in the middle of a single field being encoded. This is what
// lets the line oracles see scratch state shared between encoders without a
// lock, even where zap itself performs no synchronisation operation.

type yieldJSON struct{ N int }

func (y yieldJSON) MarshalJSON() ([]byte, error) {
	zsim.Yield(zsim.KCall, nil)
	return []byte(fmt.Sprintf(`{"r":%d}`, y.N)), nil
}

type yieldObj struct{ N int }

func (y yieldObj) MarshalLogObject(enc zapcore.ObjectEncoder) error {
	enc.AddInt("before", y.N)
	zsim.Yield(zsim.KCall, nil)
	enc.AddInt("after", y.N)
	return nil
}

type yieldStringer struct{ N int }

func (y yieldStringer) String() string {
	zsim.Yield(zsim.KCall, nil)
	return fmt.Sprintf("str-%d", y.N)
}
