package props

import (
	"bytes"
	"errors"
	"fmt"
	"io"
	"log"
	"net/url"
	"os"
	"strings"
	"syscall"
	"time"
	"unsafe"

	"go.uber.org/zap"
	"go.uber.org/zap/zapcore"
	"go.uber.org/zap/zapgrpc"

	"verif/zsim"
)

// C06 — Panic and Fatal always terminate, after the entry is written and flushed.
//
// Scenario A (this file): simulated crash. The terminal action (custom hook,
// recovered default panic, or the stubbed default exit) is the crash instant:
// at that moment every accepting sink must hold the complete line in its
// SYNCED part (power-loss model). Scenario B (c06child.go): the default
// actions in a real child process over real files.

func init() {
	register(&Prop{
		ID:  "C06",
		Run: runC06,
		Rule: "one case = (core stack drawn from nop / Lock(sink) / BufferedWriteSyncer of several sizes / level threshold above Fatal / drop-everything sampler / tee of those / a logger built by Config.Build (development mode from the configuration, optional default sampling) over a registered sink, development flag, panic and fatal hook settings from {unset, nil, WriteThenNoop, custom, Goexit}, a terminal call through one of 30 front-end methods at DPanic/Panic/Fatal, 0-2 other tasks logging concurrently) under one seeded schedule, the terminal action being the crash instant at which sinks are judged under the power-loss model; one run in ten is instead a real child process (default actions, real files, exit status observed from outside); " +
			"non-trivial = the entry was enabled somewhere or another task logged concurrently or a real child was run; distinct = distinct hash of (configuration, front end, scheduling decisions)",
		Real: []string{"zap.Logger.check / terminalHookOverride, SugaredLogger, std-log bridge, zapgrpc.Logger", "zapcore.CheckedEntry.Write, CheckWriteAction.OnWrite, ioCore.Write (sync above Error), BufferedWriteSyncer, sampler, tee, nop core", "in the child-process member: os.Exit / panic for real, *os.File sinks"},
		Stub: []string{"sinks (zsim.SimSink, synced-length tracking)", "process exit in the simulated member (zap's own exit stub, reached through an overlay-added export)", "clock"},
	})
}

type c06hookKind int

const (
	hkUnset c06hookKind = iota
	hkNil
	hkNoop
	hkCustom
	hkGoexit
)

var c06hookNames = [...]string{"unset", "nil", "WriteThenNoop", "custom", "WriteThenGoexit"}

type c06leaf struct {
	sink   *zsim.SimSink
	level  zapcore.Level
	bws    *zapcore.BufferedWriteSyncer
	faulty bool // the device fails: the action must still run, the content is not judged
	// syncFaultOnly: the device accepts every write and fails every Sync; judged
	// on the device content instead of its synced part
	syncFaultOnly bool
}

type c06world struct {
	c           *Ctx
	leaves      []*c06leaf
	dropAll     bool // sampler in front drops everything
	customPanic int
	customFatal int
	termMsg     string
	blank       bool // blank message through the std-log bridge: only the action is judged
	termLevel   zapcore.Level
	judged      bool
	preLevels   []zapcore.Level // levels of the terminating task's earlier lines
}

type c06custom struct {
	w     *c06world
	fatal bool
}

func (h c06custom) OnWrite(ce *zapcore.CheckedEntry, _ []zapcore.Field) {
	if h.fatal {
		h.w.customFatal++
	} else {
		h.w.customPanic++
	}
	if !h.w.blank && ce.Message != h.w.termMsg && !strings.HasPrefix(ce.Message, h.w.termMsg) {
		h.w.c.Fail("C06: the terminal hook received a different entry", "hook got %q, the call logged %q", ce.Message, h.w.termMsg)
	}
	// the crash instant
	h.w.judgeSinks("custom hook")
}

const (
	c6Logger = iota
	c6LoggerLog
	c6Check
	c6Sugar
	c6Sugarf
	c6Sugarw
	c6Sugarln
	c6SugarLog
	c6Std
	c6Grpc
	c6Grpcf
	c6Grpcln
	c6nFront
)

var c6frontNames = [...]string{"Logger.X", "Logger.Log", "Check+Write", "Sugar.X", "Sugar.Xf", "Sugar.Xw", "Sugar.Xln", "Sugar.Logw", "std-log bridge", "grpc.Fatal", "grpc.Fatalf", "grpc.Fatalln"}

func runC06(c *Ctx) {
	if c.G.Chance(10) {
		runC06child(c)
		return
	}
	g, r := c.G, c.R
	w := &c06world{c: c}
	// pooled objects (checked entries, buffers) are watched for double puts and
	// use after put: a terminal call is the place where a call path is left
	// half-way, and what it hands back twice is what swallows a later one
	defer guardOn(c)()
	clk := zsim.NewSimClock(r, drawEpoch(g))
	// ---- core stack ----
	var cores []zapcore.Core
	mkLeaf := func(i int) zapcore.Core {
		lf := &c06leaf{sink: zsim.NewSimSink(r, fmt.Sprintf("disk%d", i), 1+g.Draw(2), uint64(g.Draw(1<<16))+1)}
		r.Label(unsafe.Pointer(lf.sink), lf.sink.Name)
		// thresholds around the terminal levels, incl. above Fatal
		lf.level = []zapcore.Level{zapcore.DebugLevel, zapcore.InfoLevel, zapcore.ErrorLevel, zapcore.DPanicLevel, zapcore.PanicLevel, zapcore.FatalLevel, zapcore.FatalLevel + 1}[g.Weighted(3, 3, 2, 1, 1, 1, 2)]
		var ws zapcore.WriteSyncer
		if g.Chance(2) {
			lf.bws = &zapcore.BufferedWriteSyncer{WS: lf.sink, Size: pick(g, 8, 64, 512, 4096), FlushInterval: time.Second}
			lf.bws.Clock = clk.For(unsafe.Pointer(lf.bws), unsafe.Sizeof(*lf.bws))
			ws = lf.bws
		} else {
			ws = zapcore.Lock(lf.sink)
		}
		if c.F.Chance(5) {
			lf.faulty = true
			if c.F.Chance(2) {
				lf.sink.FailFrom = 1 + c.F.Draw(3)
			} else {
				// a device that takes every byte but cannot be synced, like a pipe
				// or a terminal behind stdout (EINVAL), for good: nothing can be
				// promised about what survives a power loss, but the entry must
				// have left zap's buffers for the device when control is lost
				var se error = fmt.Errorf("injected sync error")
				if c.F.Chance(2) {
					se = &os.PathError{Op: "sync", Path: "/dev/stdout", Err: syscall.EINVAL}
				}
				for i := 0; i < 64; i++ {
					lf.sink.SyncPlan = append(lf.sink.SyncPlan, se)
				}
				lf.syncFaultOnly = true
			}
		}
		if c.F.Chance(6) {
			// a slow device (a loaded disk, a network mount): every call into it
			// takes 0.3-5 s of the run's clock. Nothing fails; control may be lost
			// only after the line is where it belongs, however long that takes
			lf.sink.Delay = pick(c.F, 300*time.Millisecond, 1200*time.Millisecond, 5*time.Second) + time.Duration(i)*7*time.Millisecond
			c.Fault("slow-device")
		}
		w.leaves = append(w.leaves, lf)
		return zapcore.NewCore(zapcore.NewJSONEncoder(encCfg()), ws, lf.level)
	}
	shape := g.Weighted(2, 8, 6, 4, 4, 1)
	var core zapcore.Core
	var cfgLeaf *c06leaf
	switch shape {
	case 4:
		// a logger built by Config.Build over a registered sink; development
		// mode then comes from the configuration, not from an option
		cfgLeaf = &c06leaf{sink: zsim.NewSimSink(r, "disk0", 1+g.Draw(2), uint64(g.Draw(1<<16))+1)}
		r.Label(unsafe.Pointer(cfgLeaf.sink), cfgLeaf.sink.Name)
		cfgLeaf.level = []zapcore.Level{zapcore.DebugLevel, zapcore.InfoLevel, zapcore.ErrorLevel, zapcore.DPanicLevel, zapcore.PanicLevel, zapcore.FatalLevel, zapcore.FatalLevel + 1}[g.Weighted(3, 3, 2, 1, 1, 1, 2)]
		w.leaves = append(w.leaves, cfgLeaf)
	case 5:
		// one core over a combined syncer of 5-7 devices, bare or buffered: more
		// sinks than a handful behind one Sync
		lvl := []zapcore.Level{zapcore.DebugLevel, zapcore.ErrorLevel, zapcore.PanicLevel, zapcore.FatalLevel}[g.Draw(4)]
		var members []zapcore.WriteSyncer
		shortAt := -1
		if c.F.Chance(2) {
			shortAt = c.F.Draw(5)
		}
		// one bare member in three runs is a terminal behind stdout: it takes
		// every byte and answers every Sync with ENOTTY or EINVAL; the Sync of
		// the group must go on reaching the other members all the same
		ttyAt := -1
		if c.F.Chance(3) {
			if ttyAt = c.F.Draw(5); ttyAt == shortAt {
				ttyAt = -1
			}
		}
		for i := 0; i < 5+g.Draw(3); i++ {
			lf := &c06leaf{sink: zsim.NewSimSink(r, fmt.Sprintf("disk%d", i), 1, uint64(g.Draw(1<<16))+1), level: lvl}
			r.Label(unsafe.Pointer(lf.sink), lf.sink.Name)
			if g.Chance(2) {
				lf.bws = &zapcore.BufferedWriteSyncer{WS: lf.sink, Size: pick(g, 64, 512, 4096), FlushInterval: time.Second}
				lf.bws.Clock = clk.For(unsafe.Pointer(lf.bws), unsafe.Sizeof(*lf.bws))
				members = append(members, lf.bws)
			} else {
				members = append(members, lf.sink)
				if i == shortAt {
					// a terminal-like device that takes part of every line and says
					// so, without an error: its own content is not judged, the
					// other members' is
					for j := 0; j < 64; j++ {
						lf.sink.WritePlan = append(lf.sink.WritePlan, zsim.Outcome{Short: 1 + c.F.Draw(5)})
					}
					lf.faulty = true
					c.Fault("short-count-without-error")
				}
				if i == ttyAt {
					se := &os.PathError{Op: "sync", Path: "/dev/stdout", Err: []error{syscall.ENOTTY, syscall.EINVAL}[i%2]}
					for j := 0; j < 64; j++ {
						lf.sink.SyncPlan = append(lf.sink.SyncPlan, se)
					}
					lf.faulty, lf.syncFaultOnly = true, true
					c.Fault("terminal-member-refuses-sync")
				}
			}
			w.leaves = append(w.leaves, lf)
		}
		if g.Chance(2) {
			// handed over in two groups: the combined syncer's first two
			// elements are multi-WriteSyncers themselves
			members = append([]zapcore.WriteSyncer{zapcore.NewMultiWriteSyncer(members[0:2]...), zapcore.NewMultiWriteSyncer(members[2:4]...)}, members[4:]...)
		}
		core = zapcore.NewCore(zapcore.NewJSONEncoder(encCfg()), zap.CombineWriteSyncers(members...), lvl)
		c.R.Probe("one core over a combined syncer of 5-7 devices")
	case 0:
		core = zapcore.NewNopCore()
	case 1:
		core = mkLeaf(0)
	case 2:
		cores = append(cores, mkLeaf(0), mkLeaf(1))
		if g.Chance(3) {
			cores = append(cores, zapcore.NewNopCore())
		}
		if g.Chance(3) {
			// a user core (auditing, say) that registers an after-write hook of
			// its own from Check; placed first, so it registers before the logger
			// attaches the terminal action
			cores = append([]zapcore.Core{c06afterCore{}}, cores...)
			c.R.Probe("a core of the tee registers its own after-write hook")
		}
		core = zapcore.NewTee(cores...)
	case 3:
		w.dropAll = true
		core = zapcore.NewSamplerWithOptions(mkLeaf(0), time.Hour, 0, 0)
	}
	development := g.Chance(2)
	panicHook := c06hookKind(g.Draw(4))
	fatalHook := c06hookKind(g.Draw(5))
	var opts []zap.Option
	if development && shape != 4 {
		opts = append(opts, zap.Development())
	}
	switch panicHook {
	case hkNil:
		opts = append(opts, zap.WithPanicHook(nil))
	case hkNoop:
		opts = append(opts, zap.WithPanicHook(zapcore.WriteThenNoop))
	case hkCustom:
		opts = append(opts, zap.WithPanicHook(c06custom{w, false}))
	}
	switch fatalHook {
	case hkNil:
		opts = append(opts, zap.WithFatalHook(nil))
	case hkNoop:
		if g.Chance(2) {
			opts = append(opts, zap.OnFatal(zapcore.WriteThenNoop))
		} else {
			opts = append(opts, zap.WithFatalHook(zapcore.WriteThenNoop))
		}
	case hkCustom:
		opts = append(opts, zap.WithFatalHook(c06custom{w, true}))
	case hkGoexit:
		opts = append(opts, zap.OnFatal(zapcore.WriteThenGoexit))
	}
	// caller / stack annotation, also with a skip beyond the stack (capture fails)
	annot := g.Weighted(3, 1, 1, 1)
	switch annot {
	case 1:
		opts = append(opts, zap.AddCaller())
	case 2:
		opts = append(opts, zap.AddStacktrace(zapcore.DPanicLevel))
	case 3:
		opts = append(opts, zap.AddCaller(), zap.AddStacktrace(zapcore.ErrorLevel))
	}
	skip := 0
	if annot != 0 {
		skip = pick(g, 0, 0, 1, 1000)
		opts = append(opts, zap.AddCallerSkip(skip))
	}
	opts = append(opts, zap.ErrorOutput(zapcore.AddSync(io.Discard)))
	var lg *zap.Logger
	if shape == 4 {
		table := map[string]func(u *url.URL) (zap.Sink, error){"disk0": func(*url.URL) (zap.Sink, error) { return cfgLeaf.sink, nil }}
		useSimScheme(table)
		cfg := zap.NewProductionConfig()
		if g.Chance(2) {
			cfg.Sampling = nil
		}
		cfg.EncoderConfig = encCfg()
		cfg.DisableCaller, cfg.DisableStacktrace = true, true
		cfg.Development = development
		cfg.Level = zap.NewAtomicLevelAt(cfgLeaf.level)
		cfg.OutputPaths, cfg.ErrorOutputPaths = []string{"zsim://disk0/x"}, nil
		built, err := cfg.Build(opts...)
		if err != nil {
			panic(fmt.Sprintf("C06 harness: Config.Build failed: %v", err))
		}
		lg = built
	} else {
		// the options reach the logger at construction, through
		// Logger.WithOptions, or through SugaredLogger.WithOptions
		switch g.Weighted(3, 1, 1) {
		case 0:
			lg = zap.New(core, opts...)
		case 1:
			lg = zap.New(core).WithOptions(opts...)
			c.R.Probe("options applied through Logger.WithOptions")
		default:
			lg = zap.New(core).Sugar().WithOptions(opts...).Desugar()
			c.R.Probe("options applied through SugaredLogger.WithOptions")
		}
	}
	if g.Chance(3) {
		lg = lg.With(zap.String("ctx", "v")).Named("svc")
	}
	front := g.Draw(c6nFront)
	lvl := []zapcore.Level{zapcore.DPanicLevel, zapcore.PanicLevel, zapcore.FatalLevel}[g.Draw(3)]
	if front >= c6Grpc {
		lvl = zapcore.FatalLevel
	}
	w.termLevel = lvl
	w.termMsg = "terminal-entry"
	if front == c6Std && g.Chance(3) {
		// log.Print("") / Println(): the bridge still has to make the call
		w.termMsg = pick(g, "", " ", "\n", " \t ")
		w.blank = true
	}
	nOthers := g.Weighted(3, 2, 1)
	preLines := g.Draw(3)
	for i := 0; i < preLines; i++ {
		w.preLevels = append(w.preLevels, pick(g, zapcore.WarnLevel, zapcore.WarnLevel, zapcore.ErrorLevel, zapcore.DPanicLevel, zapcore.PanicLevel, zapcore.FatalLevel))
	}
	c.Describe("annot=%d callerSkip=%d", annot, skip)
	c.Describe("shape=%d leaves=%s dev=%v panicHook=%s fatalHook=%s front=%s level=%s others=%d pre=%d policy=%s", shape, c06leaves(w), development, c06hookNames[panicHook], c06hookNames[fatalHook], c6frontNames[front], lvl, nOthers, preLines, r.Policy)
	c.MixState(uint64(shape)<<24 | uint64(panicHook)<<20 | uint64(fatalHook)<<16 | uint64(front)<<8 | uint64(lvl))

	stopFirst := g.Chance(6)
	c06badKV = 0
	if front == c6Sugarw && g.Chance(2) {
		c06badKV = 1 + g.Draw(3)
		c.Describe("malformed key/value list %d passed to the ...w method", c06badKV)
		c.R.Probe("terminal ...w call with a malformed key/value list")
	}
	c.Describe("stop-buffered-sinks-before-the-terminal-call=%v", stopFirst)
	unstub, exitState := zap.ZsimStubExit()
	defer unstub()

	// what must happen
	wantPanicAction := lvl == zapcore.PanicLevel || (lvl == zapcore.DPanicLevel && development)
	wantFatalAction := lvl == zapcore.FatalLevel

	var recovered any
	didPanic := false
	returned := false
	goexited := true // cleared when the call returns or panics
	r.Go("term", func() {
		defer func() {
			if p := recover(); p != nil {
				didPanic = true
				recovered = p
				goexited = false
				// control is lost here: the crash instant for the default panic action
				w.judgeSinks("default panic")
			}
		}()
		// earlier lines of the same task: ordinary ones, and entries above Error
		// that did not end the task (a sibling logger over the same cores whose
		// panic and fatal hooks just return) - the terminal entry that follows
		// them must be synced all the same
		if stopFirst {
			// a shutdown path that stops its buffered sinks and then still logs
			// the fatal error: the syncer keeps accepting and flushing on Sync
			for _, lf := range w.leaves {
				if lf.bws != nil {
					_ = lf.bws.Stop()
				}
			}
			zsim.Yield(zsim.KOp, nil)
		}
		quiet := lg.WithOptions(zap.WithPanicHook(c06quiet{}), zap.WithFatalHook(c06quiet{}))
		for i, pl := range w.preLevels {
			msg := fmt.Sprintf("pre-%d", i)
			if pl == zapcore.WarnLevel {
				lg.Warn(msg)
			} else {
				quiet.Log(pl, msg)
			}
			zsim.Yield(zsim.KOp, nil)
		}
		c06call(lg, front, lvl, w.termMsg)
		returned = true
		goexited = false
		if exited, _ := exitState(); exited {
			// default fatal action with the exit stubbed: control would have been lost inside the call
			w.judgeSinks("default exit")
		}
	})
	for o := 0; o < nOthers; o++ {
		o := o
		n := 1 + g.Draw(4)
		syncs := g.Chance(3) // this task also flushes now and then, like a periodic Sync in an application
		r.Go(fmt.Sprintf("o%d", o), func() {
			for i := 0; i < n; i++ {
				lg.Error(fmt.Sprintf("other-%d-%d", o, i), zap.Int("i", i))
				zsim.Yield(zsim.KOp, nil)
				if syncs {
					_ = lg.Sync()
					zsim.Yield(zsim.KOp, nil)
				}
			}
		})
	}
	// another goroutine of the application that was ended by a terminal entry
	// of its own: a sibling logger whose fatal or panic hook is the built-in
	// WriteThenGoexit (the documented way to exercise terminal call sites). What
	// it leaves behind must not keep the terminal call under test from acting.
	if !(lvl == zapcore.FatalLevel && fatalHook == hkGoexit) && g.Chance(3) {
		viaPanic := g.Chance(3)
		c.Describe("goexit-sibling: a task ended by WriteThenGoexit (panic-level=%v) runs beside the terminal call", viaPanic)
		c.R.Probe("a sibling goroutine ended by WriteThenGoexit")
		r.Go("gx", func() {
			if viaPanic {
				lg.WithOptions(zap.WithPanicHook(zapcore.WriteThenGoexit)).Panic("goexit-sibling")
			} else {
				lg.WithOptions(zap.WithFatalHook(zapcore.WriteThenGoexit)).Fatal("goexit-sibling")
			}
			c.Fail("C06: a call whose hook is WriteThenGoexit returned", "the sibling goroutine went on after its terminal call")
		})
	}
	// flush ticks of the buffered sinks: one more party that syncs on its own
	tickBudget, ticks := g.Draw(3), 0
	if tickBudget > 0 {
		r.AddEvent(&zsim.Event{Name: "tick", Avail: func() bool { return ticks < tickBudget && clk.TickAny(false) }, Fire: func() {
			ticks++
			c.Fault("tick")
			clk.TickAny(true)
		}})
	}
	c.Nontrivial = nOthers > 0
	c.Sim()
	if lvl == zapcore.FatalLevel && fatalHook == hkGoexit {
		// Goexit: control is lost inside OnWrite, where no code of ours runs;
		// nothing syncs after it (no ticks, other tasks log at Error), so the
		// synced prefixes now are those of the crash instant
		w.judgeSinks("WriteThenGoexit")
	}
	for _, lf := range w.leaves {
		if lf.bws != nil {
			lf.bws.Stop()
		}
	}

	// ---- oracle 1: the terminal action ran, exactly once, whatever was disabled ----
	exited, code := exitState()
	desc := fmt.Sprintf("front end %s at %s (development=%v, panic hook %s, fatal hook %s, %s)", c6frontNames[front], lvl, development, c06hookNames[panicHook], c06hookNames[fatalHook], c06leaves(w))
	switch {
	case wantPanicAction:
		switch panicHook {
		case hkCustom:
			if w.customPanic != 1 || didPanic {
				c.Fail("C06: a Panic-level call did not run the configured panic hook exactly once", "%s: custom hook ran %d times, panicked=%v", desc, w.customPanic, didPanic)
				return
			}
		default: // unset, nil, no-op: the default action is a panic carrying the message
			if !didPanic {
				c.Fail("C06: a Panic-level call did not panic", "%s: the call returned=%v", desc, returned)
				return
			}
			if s, ok := recovered.(string); !ok || (!w.blank && !strings.HasPrefix(s, w.termMsg)) {
				c.Fail("C06: the default panic does not carry the message", "%s: panic value %v", desc, recovered)
				return
			}
		}
		if exited {
			c.Fail("C06: a Panic-level call exited the process", "%s", desc)
			return
		}
	case wantFatalAction:
		switch fatalHook {
		case hkCustom:
			if w.customFatal != 1 {
				sig := "C06: a Fatal-level call did not run the configured fatal hook exactly once"
				c.Fail(sig, "%s: custom hook ran %d times", desc, w.customFatal)
				return
			}
		case hkGoexit:
			if !goexited {
				c.Fail("C06: a Fatal-level call with WriteThenGoexit did not end the goroutine", "%s: returned=%v panicked=%v", desc, returned, didPanic)
				return
			}
		default:
			if !exited || code != 1 {
				sig := "C06: a Fatal-level call did not exit the process with status 1"
				if front == c6Grpcln {
					sig = "C06: zapgrpc Fatalln does not exit when the Fatal level is disabled"
				}
				if c.known(sig) {
					break
				}
				c.Fail(sig, "%s: exit called=%v code=%d", desc, exited, code)
				return
			}
		}
		if didPanic {
			c.Fail("C06: a Fatal-level call panicked", "%s: %v", desc, recovered)
			return
		}
	default: // DPanic outside development: no terminal action at all
		if didPanic || exited || w.customPanic != 0 || w.customFatal != 0 || !returned {
			c.Fail("C06: DPanic outside development mode ran a terminal action", "%s: panicked=%v exited=%v hooks=%d/%d returned=%v", desc, didPanic, exited, w.customPanic, w.customFatal, returned)
			return
		}
		// control is not lost: the entry only has to arrive (after the final Stop)
		for _, lf := range w.leaves {
			w.judgeOne(lf, lf.sink.Data, "DPanic outside development, after Stop")
		}
	}
	if (wantPanicAction || wantFatalAction) && !w.judged && len(c.Known) == 0 {
		c.Fail("C06: harness: the crash instant was never judged", "%s", desc)
		return
	}
	for _, lf := range w.leaves {
		if w.accepts(lf) {
			c.Nontrivial = true
		}
	}
}

func c06leaves(w *c06world) string {
	var s []string
	for _, lf := range w.leaves {
		k := "Lock"
		if lf.bws != nil {
			k = fmt.Sprintf("Buffered(%d)", lf.bws.Size)
		}
		if lf.faulty {
			k = "faulty-" + k
		}
		s = append(s, fmt.Sprintf("%s@%d", k, lf.level))
	}
	if w.dropAll {
		s = append(s, "behind drop-all sampler")
	}
	return "[" + strings.Join(s, " ") + "]"
}

func (w *c06world) accepts(lf *c06leaf) bool {
	return !w.dropAll && w.termLevel >= lf.level
}

// judgeSinks is called at the instant control is lost. Power-loss model: only
// the synced prefix of every device counts.
func (w *c06world) judgeSinks(when string) {
	w.judged = true
	for _, lf := range w.leaves {
		synced := lf.sink.Data[:lf.sink.SyncedLen]
		w.judgeOne(lf, synced, when)
	}
}

func (w *c06world) judgeOne(lf *c06leaf, synced []byte, when string) {
	c := w.c
	if w.blank {
		return
	}
	if lf.faulty {
		for k, v := range lf.sink.Fired {
			c.Faults[k] += v
			lf.sink.Fired[k] = 0
		}
		if !lf.syncFaultOnly {
			return
		}
		// the device took every write and refused every Sync: judged on what
		// has reached the device, synced or not
		synced = lf.sink.Data
	}
	needle := []byte(`"msg":"` + w.termMsg)
	n := bytes.Count(synced, needle)
	if !w.accepts(lf) {
		if n != 0 {
			c.Fail("C06: the terminal entry reached a sink that does not enable its level", "%s: sink %s (threshold %d) holds it", when, lf.sink.Name, lf.level)
		}
		return
	}
	if n != 1 {
		all := bytes.Count(lf.sink.Data, needle)
		c.Fail("C06: control was lost before the entry was written and synced to an accepting sink", "%s: sink %s (threshold %d, buffered=%v): the synced part (%d of %d bytes) holds the terminal entry %d times (the unsynced device content holds it %d times)", when, lf.sink.Name, lf.level, lf.bws != nil, lf.sink.SyncedLen, len(lf.sink.Data), n, all)
		return
	}
	if !lf.syncFaultOnly && (len(synced) == 0 || synced[len(synced)-1] != '\n') { // (unsynced device content may end in another task's write in progress)
		c.Fail("C06: the synced part of a sink ends in a torn line", "%s: sink %s", when, lf.sink.Name)
		return
	}
	// all earlier lines of the same task precede it
	idx := bytes.Index(synced, needle)
	for i, pl := range w.preLevels {
		if w.dropAll || pl < lf.level {
			continue
		}
		pre := []byte(fmt.Sprintf(`"msg":"pre-%d"`, i))
		p := bytes.Index(synced, pre)
		if p < 0 {
			c.Fail("C06: an earlier line of the terminating goroutine is not in the synced part before the terminal entry", "%s: sink %s: pre-%d (level %s)", when, lf.sink.Name, i, pl)
			return
		}
		if p > idx {
			c.Fail("C06: an earlier line of the terminating goroutine follows the terminal entry", "%s: sink %s: pre-%d", when, lf.sink.Name, i)
			return
		}
	}
}

// c06afterCore accepts every entry, writes nothing, and registers an
// after-write hook of its own (one that returns) from Check.
type c06afterCore struct{}

func (c06afterCore) Enabled(zapcore.Level) bool          { return true }
func (k c06afterCore) With([]zapcore.Field) zapcore.Core { return k }
func (k c06afterCore) Check(e zapcore.Entry, ce *zapcore.CheckedEntry) *zapcore.CheckedEntry {
	return ce.AddCore(e, k).After(e, c06quiet{})
}
func (c06afterCore) Write(zapcore.Entry, []zapcore.Field) error { return nil }
func (c06afterCore) Sync() error                                { return nil }

// c06badKV: which key/value list the sugared ...w front end passes in this run
// (0 well-formed, 1-3 malformed).
var c06badKV int

// c06quiet: a panic/fatal hook that just returns, so that an entry above Error
// can be followed by more calls of the same task.
type c06quiet struct{}

func (c06quiet) OnWrite(*zapcore.CheckedEntry, []zapcore.Field) {}

func c06call(lg *zap.Logger, front int, lvl zapcore.Level, msg string) {
	s := lg.Sugar()
	switch front {
	case c6Logger:
		switch lvl {
		case zapcore.DPanicLevel:
			lg.DPanic(msg, zap.Int("k", 1))
		case zapcore.PanicLevel:
			lg.Panic(msg, zap.Int("k", 1))
		default:
			lg.Fatal(msg, zap.Int("k", 1))
		}
	case c6LoggerLog:
		lg.Log(lvl, msg, zap.Int("k", 1))
	case c6Check:
		if ce := lg.Check(lvl, msg); ce != nil {
			ce.Write(zap.Int("k", 1))
		}
	case c6Sugar:
		switch lvl {
		case zapcore.DPanicLevel:
			s.DPanic(msg)
		case zapcore.PanicLevel:
			s.Panic(msg)
		default:
			s.Fatal(msg)
		}
	case c6Sugarf:
		switch lvl {
		case zapcore.DPanicLevel:
			s.DPanicf("%s", msg)
		case zapcore.PanicLevel:
			s.Panicf("%s", msg)
		default:
			s.Fatalf("%s", msg)
		}
	case c6Sugarw:
		// the key/value list is well-formed or, by the run's draw, malformed (a
		// dangling key, a non-string key, two bare errors): zap complains about
		// that in a line of its own, the terminal entry and action are as ever
		kv := [][]any{{"k", 1}, {"k", 1, "dangling"}, {42, "v", "k", 1}, {errors.New("first"), errors.New("second"), "k", 1}}[c06badKV]
		switch lvl {
		case zapcore.DPanicLevel:
			s.DPanicw(msg, kv...)
		case zapcore.PanicLevel:
			s.Panicw(msg, kv...)
		default:
			s.Fatalw(msg, kv...)
		}
	case c6Sugarln:
		switch lvl {
		case zapcore.DPanicLevel:
			s.DPanicln(msg)
		case zapcore.PanicLevel:
			s.Panicln(msg)
		default:
			s.Fatalln(msg)
		}
	case c6SugarLog:
		s.Logw(lvl, msg, "k", 1)
	case c6Std:
		var sl *log.Logger
		sl, err := zap.NewStdLogAt(lg, lvl)
		if err != nil {
			panic(err)
		}
		sl.Print(msg)
	case c6Grpc:
		zapgrpc.NewLogger(lg).Fatal(msg)
	case c6Grpcf:
		zapgrpc.NewLogger(lg).Fatalf("%s", msg)
	case c6Grpcln:
		zapgrpc.NewLogger(lg).Fatalln(msg)
	}
}
