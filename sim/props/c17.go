package props

import (
	"bytes"
	"errors"
	"fmt"
	"io"
	"strings"

	"go.uber.org/zap"
	"go.uber.org/zap/zapcore"
	"go.uber.org/zap/zapio"
	"go.uber.org/zap/zaptest/observer"

	"verif/simsync"
	"verif/zsim"
)

// C17 — zapio.Writer logs exactly the lines of the byte stream, however it is chunked.
//
// The writer is the receiving end of a byte stream (a child process's pipe):
// how the stream is cut into Write calls is delivery nondeterminism, Sync is
// an asynchronous split point, and the level switch is a consumer that comes
// and goes.

func init() {
	register(&Prop{
		ID:  "C17",
		Run: runC17,
		Rule: "one case = a byte stream of <= 240 bytes (drawn newline density, runs of empty lines, long lines, arbitrary bytes incl. NUL, CR and invalid UTF-8) cut into drawn chunks (including empty ones and single newlines), with Sync calls and level toggles (only while no partial line is held) at drawn positions and a final Close; " +
			"non-trivial = at least 2 Write calls and at least one newline in the stream; distinct = distinct hash of the event list (chunk boundaries, Sync and toggle positions, newline positions)",
		Real: []string{"zapio.Writer (Write, writeLine, flush, Sync, Close)", "zap.Logger.Check/Write, zap.AtomicLevel", "zaptest/observer"},
		Stub: []string{"the producer of the stream (chunking)"},
	})
}

// c17huge: one line of 1-3 MiB that arrives in 3-6 fragments (a child process
// printing one enormous line through io.Copy), between ordinary lines.
func c17huge(c *Ctx) {
	g := c.G
	core, logs := observer.New(zapcore.DebugLevel)
	wr := &zapio.Writer{Log: zap.New(core), Level: zapcore.InfoLevel}
	nFrag := 3 + g.Draw(4)
	var want []string
	var line []byte
	c.Nontrivial = true
	write := func(p []byte) bool {
		if n, err := wr.Write(p); n != len(p) || err != nil {
			c.Fail("C17: Write did not report all bytes as consumed", "huge-line member: Write(%d bytes) returned (%d, %v)", len(p), n, err)
			return false
		}
		return true
	}
	if !write([]byte("before\n")) {
		return
	}
	want = append(want, "before")
	var sizes []int
	for i := 0; i < nFrag; i++ {
		sz := pick(g, 10, 4096, 300<<10, 700<<10, 1<<20)
		sizes = append(sizes, sz)
		frag := bytes.Repeat([]byte{byte('a' + i)}, sz)
		line = append(line, frag...)
		if !write(frag) {
			return
		}
	}
	if !write([]byte("tail\nafter\npartial")) {
		return
	}
	want = append(want, string(line)+"tail", "after")
	if err := wr.Close(); err != nil {
		c.Fail("C17: Close returned an error", "%v", err)
		return
	}
	want = append(want, "partial")
	c.Describe("member=huge-line fragments=%v", sizes)
	got := logs.All()
	if len(got) != len(want) {
		c.Fail("C17: the logged messages are not exactly the lines of the stream", "huge-line member: %d messages, %d lines", len(got), len(want))
		return
	}
	for i := range want {
		if got[i].Message != want[i] {
			c.Fail("C17: the logged messages are not exactly the lines of the stream", "huge-line member: message %d has %d bytes, the line %d (fragments %v)", i, len(got[i].Message), len(want[i]), sizes)
			return
		}
	}
	c.R.Probe("a line of up to several MiB in 3-6 fragments")
}

func runC17(c *Ctx) {
	g, r := c.G, c.R
	if g.Chance(150) {
		c17huge(c)
		return
	}
	// ---- stream ----
	n := g.Draw(241)
	nlDensity := pick(g, 2, 4, 8, 30, 1000)
	// one run in six: a long stream with long lines and large chunks (buffer
	// growth, capacity boundaries)
	long := g.Chance(6)
	if long {
		n = 300 + g.Draw(6000)
		nlDensity = pick(g, 300, 1000, 3000, 100000)
	}
	alphabet := pick(g, "ab", "abcdefghij \t", "a\x00\r\xff\xc3(", "x")
	stream := make([]byte, n)
	for i := range stream {
		if g.Draw(nlDensity) == 0 {
			stream[i] = '\n'
		} else {
			stream[i] = alphabet[g.Draw(len(alphabet))]
		}
	}
	// one run in eight: the stream begins with the bytes of a UTF-8 byte order
	// mark, as the output of some tools does; they are content like any other
	if g.Chance(8) {
		stream = append([]byte("\xef\xbb\xbf"), stream...)
		c.R.Probe("stream that begins with a byte order mark")
	}
	// one run in six (of the short ones): repetitive output, as a compiler or a
	// test runner produces it - lines from a small vocabulary, many of them
	// repeated. The vocabulary holds lines of equal length that differ in a few
	// characters, among them pairs that collide under common 32-bit hashes
	// (FNV-1a here), so that a writer that recognises lines it has seen by
	// anything less than their bytes shows
	if !long && g.Chance(6) {
		vocab := []string{"compiled unit 0468088 ok", "compiled unit 1192106 ok", "compiled unit 0468089 ok", "ok", "", "PASS", "=== RUN", "compiled unit 0468088 OK"}
		stream = stream[:0]
		for i, k := 0, 2+g.Draw(14); i < k; i++ {
			stream = append(stream, vocab[g.Weighted(3, 3, 1, 1, 1, 1, 1, 1)]...)
			if i+1 < k || g.Chance(2) {
				stream = append(stream, '\n')
			}
		}
		c.R.Probe("repetitive stream from a small vocabulary with hash-colliding lines")
	}
	// ---- events ----
	type event struct {
		kind  byte // 'W', 'S', 'T'
		chunk []byte
		str   bool // handed over with io.WriteString, as fmt and text/template users do
		copy  bool // handed over with io.Copy from a reader that returns its last bytes together with io.EOF
	}
	var events []event
	strMix := g.Chance(3)
	copyMix := g.Chance(4)
	pos := 0
	for pos < len(stream) || g.Chance(6) {
		switch g.Weighted(8, 2, 2) {
		case 0:
			var k int
			switch g.Weighted(3, 3, 2, 1) {
			case 0:
				k = 1
			case 1:
				k = 1 + g.Draw(8)
			case 2:
				k = 1 + g.Draw(64)
			case 3:
				k = 0
			}
			if long && g.Chance(2) {
				k = []int{200, 255, 256, 257, 511, 512, 513, 700, 1023, 1024, 1025, 2048, 3000}[g.Draw(13)] + g.Draw(3) - 1
			}
			if pos+k > len(stream) {
				k = len(stream) - pos
			}
			events = append(events, event{kind: 'W', chunk: stream[pos : pos+k], str: strMix && g.Chance(2)})
			if copyMix && g.Chance(3) {
				events[len(events)-1].str, events[len(events)-1].copy = false, true
			}
			pos += k
		case 1:
			events = append(events, event{kind: 'S'})
		case 2:
			events = append(events, event{kind: 'T'})
		}
		if len(events) > 120 {
			break
		}
	}
	if pos < len(stream) {
		events = append(events, event{kind: 'W', chunk: stream[pos:]})
	}

	// an ordinary logger shares zap's internal pools with the writer
	simsync.SetPolicy(simsync.PoolLIFO, 1, 0)
	guardDone := guardOn(c)
	defer guardDone()
	otherSink := zsim.NewSimSink(r, "other", 1, 5)
	other := zap.New(zapcore.NewCore(zapcore.NewJSONEncoder(encCfg()), zapcore.Lock(otherSink), zapcore.DebugLevel))
	otherN := 0
	lvl := zap.NewAtomicLevelAt(zapcore.InfoLevel)
	// one run in five: a writer at a verbosity level below Debug (as logr-style
	// adapters use) over a core whose enabler is a plain function, not a level
	verbose := g.Chance(5)
	floor := zapcore.Level(-2)
	var enab zapcore.LevelEnabler = lvl
	if verbose {
		enab = zap.LevelEnablerFunc(func(l zapcore.Level) bool { return l >= floor })
		c.R.Probe("writer at a level below Debug over a function enabler")
	}
	core, logs := observer.New(enab)
	var wcore zapcore.Core = core
	if c.F.Chance(4) {
		// the writer's logger also feeds a destination that fails every write
		// (registered in front of the judged one): the lines are logged all the
		// same, Write still reports every byte as consumed
		wcore = zapcore.NewTee(c17failCore{enab}, core)
		c.Fault("failing-sibling-core")
	}
	// one run in six: a core that decides in Check by the entry's message (a
	// user filter that ignores blank lines): the lines logged are then the
	// non-empty lines, in order
	dropBlank := !verbose && g.Chance(6)
	if dropBlank {
		wcore = c17dropBlank{wcore}
		c.R.Probe("writer over a core that filters by message in Check")
	}
	shared := zap.New(wcore, zap.ErrorOutput(zapcore.AddSync(io.Discard)))
	wr := &zapio.Writer{Log: shared, Level: pick(g, zapcore.InfoLevel, zapcore.WarnLevel)}
	if verbose {
		wr.Level = zapcore.Level(-2)
	}
	// one run in four: a second writer on the same logger (a child's stderr
	// next to its stdout), fed by its own task at a level that stays enabled
	var wrB *zapio.Writer
	var wantB []string
	var chunksB [][]byte
	if g.Chance(4) {
		wrB = &zapio.Writer{Log: shared, Level: zapcore.ErrorLevel}
		var sb []byte
		for i := 0; i < 1+g.Draw(6); i++ {
			line := fmt.Sprintf("b%d:%s", i, strings.Repeat("y", g.Draw(12)))
			wantB = append(wantB, line)
			sb = append(sb, line...)
			sb = append(sb, '\n')
		}
		for len(sb) > 0 {
			k := 1 + g.Draw(9)
			if k > len(sb) {
				k = len(sb)
			}
			chunksB = append(chunksB, sb[:k])
			sb = sb[k:]
		}
		c.Describe("second writer on the same logger: %d lines in %d chunks", len(wantB), len(chunksB))
		c.R.Probe("second writer on the same logger")
	}

	// ---- reference splitter, run over the same event list ----
	var want []string
	var partial []byte
	enabled := true
	writes, newlines, toggles := 0, 0, 0
	var ed []string
	scratch := make([]byte, 256)
	for _, ev := range events {
		if len(ev.chunk) > len(scratch) {
			scratch = make([]byte, len(ev.chunk))
		}
	}
	r.Go("producer", func() {
		for i, ev := range events {
			switch ev.kind {
			case 'W':
				writes++
				if enabled {
					for _, b := range ev.chunk {
						if b == '\n' {
							if !(dropBlank && len(partial) == 0) {
								want = append(want, string(partial))
							}
							partial = partial[:0]
							newlines++
						} else {
							partial = append(partial, b)
						}
					}
				}
				// like io.Copy, the producer hands over the same scratch buffer
				// every time and overwrites it as soon as Write has returned
				arg := scratch[:len(ev.chunk)]
				copy(arg, ev.chunk)
				var nn int
				var err error
				if ev.copy {
					// io.Copy uses whatever the writer offers for readers (os/exec feeds
					// writers this way); the source hands over 1-7 bytes per Read and
					// the last ones together with io.EOF, as decompressors and
					// length-limited bodies do
					c.R.Probe("chunks handed over with io.Copy from a reader that ends with data and EOF")
					var n64 int64
					n64, err = io.Copy(wr, &c17eofReader{data: arg, step: 1 + len(arg)%7})
					nn = int(n64)
				} else if ev.str {
					// io.WriteString uses whatever the writer offers for strings; the
					// stream is the same stream
					c.R.Probe("chunks handed over with io.WriteString between Write calls")
					nn, err = io.WriteString(wr, string(arg))
				} else {
					nn, err = wr.Write(arg)
				}
				if nn != len(ev.chunk) || err != nil {
					c.Fail("C17: Write did not report all bytes as consumed", "event %d: Write(%d bytes) returned (%d, %v)", i, len(ev.chunk), nn, err)
					return
				}
				if string(arg) != string(ev.chunk) {
					c.Fail("C17: Write modified the caller's bytes", "event %d", i)
					return
				}
				for j := range scratch {
					scratch[j] = 0xEE
				}
				if len(ev.chunk) > 48 {
					ed = append(ed, fmt.Sprintf("W(%d bytes, %d newlines)%q…", len(ev.chunk), strings.Count(string(ev.chunk), "\n"), ev.chunk[:24]))
				} else {
					ed = append(ed, fmt.Sprintf("W%q", ev.chunk))
				}
			case 'S':
				if len(partial) > 0 {
					want = append(want, string(partial))
					partial = partial[:0]
				}
				if err := wr.Sync(); err != nil {
					c.Fail("C17: Sync returned an error", "%v", err)
					return
				}
				ed = append(ed, "Sync")
			case 'T':
				// a partial line spanning a level change is not judged: toggle
				// only while the writer holds nothing
				if len(partial) > 0 {
					continue
				}
				enabled = !enabled
				toggles++
				if enabled {
					lvl.SetLevel(zapcore.InfoLevel)
					floor = zapcore.Level(-2)
				} else {
					lvl.SetLevel(zapcore.ErrorLevel)
					floor = zapcore.ErrorLevel
				}
				ed = append(ed, fmt.Sprintf("level-enabled=%v", enabled))
			}
			if i%3 == 1 {
				otherN++
				fs := []zap.Field{zap.Int("n", otherN), zap.String("pad", "0123456789abcdef")}
				const msg = "unrelated entry of another logger"
				switch otherN % 4 {
				case 0:
					other.Info(msg, fs...)
				case 1:
					// an entry with a hook that returns (an audit hook, say)
					if ce := other.Check(zapcore.InfoLevel, msg); ce != nil {
						ce.After(ce.Entry, c06quiet{}).Write(fs...)
					}
				case 2:
					// a Panic-level entry whose action is a hook that returns
					other.WithOptions(zap.WithPanicHook(c06quiet{})).Panic(msg, fs...)
				default:
					other.With(zap.Int("k", 1)).Warn(msg, fs...)
				}
			}
			c.MixState(uint64(ev.kind)<<16 | uint64(len(ev.chunk))<<4 | uint64(strings.Count(string(ev.chunk), "\n")))
			// the messages logged so far are exactly the reference's
			if got := logs.FilterLevelExact(wr.Level).Len(); got != len(want) {
				c.Fail("C17: the number of logged messages differs from the lines of the stream so far", "after event %d (%s): %d messages logged, %d expected; events: %s", i, ed[len(ed)-1], got, len(want), strings.Join(ed, " "))
				return
			}
			zsim.Yield(zsim.KOp, nil)
		}
		if len(partial) > 0 && enabled {
			want = append(want, string(partial))
		}
		if err := wr.Close(); err != nil {
			c.Fail("C17: Close returned an error", "%v", err)
			return
		}
	})
	if wrB != nil {
		r.Go("producerB", func() {
			for i, ch := range chunksB {
				arg := append([]byte(nil), ch...)
				if nn, err := wrB.Write(arg); nn != len(ch) || err != nil {
					c.Fail("C17: Write did not report all bytes as consumed", "second writer, chunk %d: Write(%d bytes) returned (%d, %v)", i, len(ch), nn, err)
					return
				}
				for j := range arg {
					arg[j] = 0xEE
				}
				zsim.Yield(zsim.KOp, nil)
			}
			if err := wrB.Close(); err != nil {
				c.Fail("C17: Close returned an error", "second writer: %v", err)
			}
		})
	}
	c.Sim()
	if wrB != nil && !r.Failed() {
		gotB := logs.FilterLevelExact(zapcore.ErrorLevel).All()
		for i := 0; i < len(gotB) || i < len(wantB); i++ {
			if i >= len(gotB) || i >= len(wantB) || gotB[i].Message != wantB[i] {
				c.Fail("C17: the logged messages are not exactly the lines of the stream", "second writer on the same logger: message %d of %d differs from line %d of %d", i, len(gotB), i, len(wantB))
				return
			}
		}
	}
	c.Describe("stream=%q", stream)
	c.Describe("events: %s Close", strings.Join(ed, " "))
	c.Nontrivial = writes >= 2 && newlines >= 1
	if n := strings.Count(string(otherSink.Data), "\n"); n != otherN || strings.Count(string(otherSink.Data), `"msg":"unrelated entry of another logger"`) != otherN {
		c.Fail("C17: the writer disturbed an unrelated logger sharing zap's pools", "%d entries logged, sink holds %d lines: %q", otherN, n, clip(otherSink.Data))
		return
	}
	if toggles > 0 {
		c.Fault("level-toggle")
	}
	got := logs.FilterLevelExact(wr.Level).All()
	for i := 0; i < len(got) || i < len(want); i++ {
		var g1, w1 string
		if i < len(got) {
			g1 = got[i].Message
		}
		if i < len(want) {
			w1 = want[i]
		}
		if i >= len(got) || i >= len(want) || g1 != w1 {
			c.Fail("C17: the logged messages are not exactly the lines of the stream", "message %d: got %q (of %d), expected %q (of %d); stream %q; events: %s Close", i, g1, len(got), w1, len(want), stream, strings.Join(ed, " "))
			return
		}
		if got[i].Level != wr.Level {
			c.Fail("C17: a line was logged at the wrong level", "message %d at %s", i, got[i].Level)
			return
		}
	}
}

// c17dropBlank declines entries whose message is empty; everything else is
// the wrapped core's business.
type c17dropBlank struct{ zapcore.Core }

func (k c17dropBlank) With(fs []zapcore.Field) zapcore.Core { return c17dropBlank{k.Core.With(fs)} }
func (k c17dropBlank) Check(e zapcore.Entry, ce *zapcore.CheckedEntry) *zapcore.CheckedEntry {
	if e.Message == "" {
		return ce
	}
	return k.Core.Check(e, ce)
}

// c17failCore enables what the judged core enables and fails every write.
type c17failCore struct{ lvl zapcore.LevelEnabler }

func (k c17failCore) Enabled(l zapcore.Level) bool      { return k.lvl.Enabled(l) }
func (k c17failCore) With([]zapcore.Field) zapcore.Core { return k }
func (k c17failCore) Check(e zapcore.Entry, ce *zapcore.CheckedEntry) *zapcore.CheckedEntry {
	if k.Enabled(e.Level) {
		return ce.AddCore(e, k)
	}
	return ce
}
func (c17failCore) Write(zapcore.Entry, []zapcore.Field) error {
	return errors.New("injected failure of a sibling core")
}
func (c17failCore) Sync() error { return nil }

// c17eofReader hands out its data step bytes at a time and returns io.EOF
// together with the last of them, which the io.Reader contract allows. It has
// no WriteTo, so io.Copy goes through the destination.
type c17eofReader struct {
	data []byte
	step int
}

func (r *c17eofReader) Read(p []byte) (int, error) {
	n := r.step
	if n > len(p) {
		n = len(p)
	}
	if n >= len(r.data) {
		n = copy(p, r.data)
		r.data = nil
		return n, io.EOF
	}
	copy(p, r.data[:n])
	r.data = r.data[n:]
	return n, nil
}
