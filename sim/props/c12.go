package props

import (
	"bytes"
	"fmt"
	"io"
	"os"
	"runtime"
	"strings"
	"sync/atomic"
	"syscall"
	"testing/synctest"
	"time"
	"unsafe"

	"go.uber.org/zap/zapcore"

	"verif/zsim"
)

// C12 — BufferedWriteSyncer delivers every byte once, in order, in whole writes.
//
// Real: zapcore.BufferedWriteSyncer (+ bufio, multierr). Stub: SimSink, SimClock.

func init() {
	register(&Prop{
		ID:  "C12",
		Run: runC12,
		Rule: "one case = (buffer size, sink fragmentation, 1-4 task programs of Write(len)/Sync/Stop, tick and kill events, scheduling policy) drawn from the seed, executed under one seeded schedule; " +
			"non-trivial = at least 2 tasks or at least one tick/kill event fired; distinct = distinct hash of (sequence of (task, yield kind) scheduling decisions, sequence of sink calls with the number of caller writes in each)",
		Real: []string{"zapcore.BufferedWriteSyncer (Write, Sync, Stop, flushLoop, initialize)", "bufio.Writer", "go.uber.org/multierr"},
		Stub: []string{"sink beneath the syncer (zsim.SimSink)", "zapcore.Clock and ticker (zsim.SimClock)", "sync.Mutex (simsync: modelled, then really executed)"},
	})
}

type c12op struct {
	kind byte // 'W', 'S', 'X' (stop)
	n    int  // write length
	id   int  // write id (global, < 120)
	// filled at run time
	inv, ret int64 // harness event numbers (0 = not yet)
	err      error
	gotN     int
}

type c12 struct {
	c             *Ctx
	sink          *zsim.SimSink
	bws           *zapcore.BufferedWriteSyncer
	size          int
	ev            int64        // harness event counter: every invoke and return gets a fresh number (see next)
	inOp          atomic.Int32 // named tasks currently inside a Write/Sync/Stop of the syncer
	progs         [][]*c12op
	writes        []*c12op // by id
	firstStopInv  int64
	stopsInFlight int
	faulty        bool
	ticksPending  []c12tick
	stuck         int // consecutive quiescent points at which a delivered tick was not being taken (see c12tickStuck)
	killed        bool
	syncAcked     int // number of bytes of the sink known synced at a nil Sync return (for the crash oracle)
	ackedIDs      map[int]bool
}

type c12tick struct {
	at int64 // harness event number of delivery
}

func (w *c12) payload(op *c12op) []byte {
	if op.n == 0 {
		return []byte{}
	}
	b := make([]byte, op.n)
	b[0] = 0x80 | byte(op.id)
	for i := 1; i < op.n; i++ {
		b[i] = byte(op.id)
	}
	return b
}

// parse splits b into whole caller writes; ok=false if b is not a
// concatenation of whole, issued writes.
func (w *c12) parse(b []byte) (ids []int, ok bool, why string) {
	i := 0
	for i < len(b) {
		h := b[i]
		if h < 0x80 {
			return ids, false, fmt.Sprintf("offset %d: byte %#x is not the start of a caller write", i, h)
		}
		id := int(h &^ 0x80)
		if id >= len(w.writes) || w.writes[id] == nil {
			return ids, false, fmt.Sprintf("offset %d: write id %d was never issued", i, id)
		}
		n := w.writes[id].n
		if i+n > len(b) {
			return ids, false, fmt.Sprintf("offset %d: write id %d (len %d) is cut off after %d bytes", i, id, n, len(b)-i)
		}
		for j := 1; j < n; j++ {
			if b[i+j] != byte(id) {
				return ids, false, fmt.Sprintf("offset %d: write id %d corrupted at byte %d", i, id, j)
			}
		}
		ids = append(ids, id)
		i += n
	}
	return ids, true, ""
}

func (w *c12) describeOps() string {
	var b strings.Builder
	for t, p := range w.progs {
		fmt.Fprintf(&b, "t%d:", t)
		for _, op := range p {
			switch op.kind {
			case 'W':
				fmt.Fprintf(&b, " W#%d(%d)", op.id, op.n)
			case 'S':
				b.WriteString(" Sync")
			case 'X':
				b.WriteString(" Stop")
			}
		}
		b.WriteString("; ")
	}
	return b.String()
}

func runC12(c *Ctx) {
	if c.G.Chance(10) {
		runC12faulty(c)
		return
	}
	if c.G.Chance(14) {
		runC12stacked(c)
		return
	}
	g := c.G
	r := c.R
	w := &c12{c: c, ackedIDs: map[int]bool{}}
	// ---- configuration (swarm) ----
	switch g.Weighted(12, 6, 2, 3) {
	case 0:
		w.size = 1 + g.Draw(32)
	case 1:
		w.size = pick(g, 8, 16, 64, 5, 100)
	case 2:
		w.size = 0 // default 256 kB
	default:
		// sizes at and around power-of-two / page boundaries, and plainly odd ones
		w.size = pick(g, 255, 256, 257, 1000, 4095, 4096, 4097, 5000, 8191, 8192, 8193, 10000, 12289, 65537)
	}
	frag := 1 + g.Draw(3)
	nTasks := 1 + g.Weighted(2, 4, 3, 1)
	maxOps := 6
	if c.Tier == "thorough" {
		maxOps = 12
	}
	tickBudget := g.Draw(5)
	crash := g.Chance(5)
	killAt := int64(0)
	eff := w.size
	if eff == 0 {
		eff = 24 // for choosing lengths only
	}
	nextID := 0
	for t := 0; t < nTasks; t++ {
		n := 1 + g.Draw(maxOps)
		var prog []*c12op
		for i := 0; i < n; i++ {
			op := &c12op{}
			switch g.Weighted(7, 2, 1) {
			case 0:
				op.kind = 'W'
				switch g.Weighted(2, 3, 2, 2, 1, 1, 1) {
				case 0:
					op.n = 1
				case 1:
					op.n = 1 + g.Draw(eff)
				case 2:
					op.n = eff
				case 3:
					op.n = eff + 1
				case 4:
					op.n = 3 * eff
				case 5:
					op.n = 0
				case 6:
					op.n = 1 + g.Draw(3*eff)
				}
				if op.n > 0 && nextID < 120 {
					op.id = nextID
					nextID++
					for len(w.writes) <= op.id {
						w.writes = append(w.writes, nil)
					}
					w.writes[op.id] = op
				} else {
					op.n = 0
					op.id = -1
				}
			case 1:
				op.kind = 'S'
			case 2:
				op.kind = 'X'
			}
			prog = append(prog, op)
		}
		w.progs = append(w.progs, prog)
	}
	if crash {
		killAt = int64(1 + g.Draw(60))
	}
	c.Describe("size=%d frag=%d tasks=%d ticks<=%d crash@%d policy=%s", w.size, frag, nTasks, tickBudget, killAt, r.Policy)
	c.Describe("%s", w.describeOps())

	// ---- system under test ----
	w.sink = zsim.NewSimSink(r, "disk", frag, uint64(g.Draw(1<<16))+1)
	if !crash && c.F.Chance(12) {
		// a slow device: every call into it takes 0.3 s to 2 min of the run's
		// clock. Nothing fails; Sync and Stop take as long as the device takes
		w.sink.Delay = pick(c.F, 300*time.Millisecond, 6*time.Second, 2*time.Minute)
		c.Fault("slow-device")
	}
	clk := zsim.NewSimClock(r, drawEpoch(g))
	// the device is handed over bare or, as most programs do, behind Lock
	var dev zapcore.WriteSyncer = w.sink
	if g.Chance(4) {
		dev = zapcore.Lock(w.sink)
		c.Describe("device behind zapcore.Lock")
		c.R.Probe("device behind zapcore.Lock")
	}
	w.bws = &zapcore.BufferedWriteSyncer{WS: dev, Size: w.size, FlushInterval: time.Duration(1+g.Draw(60)) * time.Second}
	w.bws.Clock = clk.For(unsafe.Pointer(w.bws), unsafe.Sizeof(*w.bws))
	r.Label(unsafe.Pointer(w.sink), "disk")
	r.Label(unsafe.Pointer(clk), "clock")

	// invariant A on every sink call
	w.sink.OnCall = func(s *zsim.SimSink, call *zsim.SinkCall) {
		if call.Kind != 'W' {
			return
		}
		ids, ok, why := w.parse(s.Data[call.Off : call.Off+call.Len])
		if !ok {
			c.Fail("C12-A: a sink write is not a concatenation of whole caller writes", "sink write #%d by %s (%d bytes): %s", s.Writes, call.Task, call.Len, why)
			return
		}
		c.MixState(uint64(len(ids))<<8 | 'W')
		if len(ids) == 1 && w.size > 0 && w.writes[ids[0]].n > w.size {
			r.Probe("write larger than buffer bypassed it")
		}
		if len(ids) > 1 {
			r.Probe("sink write batched several caller writes")
		}
	}

	// ---- events ----
	ticks := 0
	r.AddEvent(&zsim.Event{
		Name: "tick",
		Avail: func() bool {
			if ticks >= tickBudget || w.firstStopInv != 0 || w.killed || len(clk.Tickers) == 0 {
				return false
			}
			return clk.CanTick(clk.Tickers[0])
		},
		Fire: func() {
			ticks++
			w.ticksPending = append(w.ticksPending, c12tick{at: w.next()})
			c.Fault("tick")
			if r.Held(unsafe.Pointer(w.bws)) || r.Held(muAddr(w.bws)) {
				r.Probe("tick delivered while a caller holds the lock")
			}
			clk.Tick(clk.Tickers[0])
		},
	})
	if crash {
		r.AddEvent(&zsim.Event{
			Name:  "kill",
			Avail: func() bool { return !w.killed && r.Steps() >= killAt },
			Fire: func() {
				w.killed = true
				complete := c.F.Draw(2) == 1
				w.sink.Kill(complete)
				c.Fault("process-kill")
				r.Halt()
			},
		})
	}
	// invariants C and F are evaluated by the scheduler at every quiescent point
	r.OnStep = func() { w.onStep(clk) }

	// ---- tasks ----
	for t := range w.progs {
		prog := w.progs[t]
		r.Go(fmt.Sprintf("t%d", t), func() {
			for _, op := range prog {
				w.exec(op)
				zsim.Yield(zsim.KOp, nil)
			}
		})
	}
	// A second, independent syncer of the same configuration over its own
	// device, used by its own task while the first one is written, stopped and
	// written again: what one syncer accepted must never surface in, or be
	// displaced by, the other (nothing may be shared between two syncers).
	var sinkB *zsim.SimSink
	var bwsB *zapcore.BufferedWriteSyncer
	acceptedB := 0
	if !crash && g.Chance(3) {
		sinkB = zsim.NewSimSink(r, "disk-b", frag, uint64(g.Draw(1<<16))+1)
		r.Label(unsafe.Pointer(sinkB), "disk-b")
		clkB := zsim.NewSimClock(r, drawEpoch(g)) // stands still: no flush tick for the companion
		bwsB = &zapcore.BufferedWriteSyncer{WS: sinkB, Size: w.size, FlushInterval: time.Hour}
		bwsB.Clock = clkB.For(unsafe.Pointer(bwsB), unsafe.Sizeof(*bwsB))
		nB := 1 + g.Draw(5)
		lens := make([]int, nB)
		for i := range lens {
			lens[i] = g.Draw(2 * eff) // 0: a Sync
		}
		c.Describe("companion syncer over disk-b: ops %v (0 = Sync)", lens)
		c.R.Probe("companion syncer of the same size in use")
		r.Go("tb", func() {
			for _, n := range lens {
				if n == 0 {
					if err := bwsB.Sync(); err != nil {
						c.Fail("C12-D: Sync returned an error on a healthy sink", "companion syncer: %v", err)
						return
					}
				} else {
					p := bytes.Repeat([]byte{0x7B}, n)
					if k, err := bwsB.Write(p); k != n || err != nil {
						c.Fail("C12: Write on a healthy sink did not accept the whole payload", "companion syncer: Write(len %d) returned (%d, %v)", n, k, err)
						return
					}
					acceptedB += n
				}
				zsim.Yield(zsim.KOp, nil)
			}
		})
	}
	c.Nontrivial = nTasks >= 2
	c.Sim()
	if bwsB != nil && !r.Failed() {
		if err := bwsB.Stop(); err != nil {
			c.Fail("C12-E: Stop returned an error on a healthy sink", "companion syncer: %v", err)
			return
		}
		if len(sinkB.Data) != acceptedB || bytes.Count(sinkB.Data, []byte{0x7B}) != acceptedB {
			c.Fail("C12: the sink of one syncer does not hold exactly what that syncer accepted when another syncer of the same size is in use", "companion accepted %d bytes of 0x7b, its sink holds %d bytes: %q", acceptedB, len(sinkB.Data), clip(sinkB.Data))
			return
		}
	}
	if ticks > 0 || w.killed {
		c.Nontrivial = true
	}

	if w.killed {
		w.crashOracle()
		// The process is dead: its tasks were unwound in the middle of whatever
		// they were doing (which no live process ever sees), so nothing of the
		// dead syncer is called again - a Stop could wait for ever for a
		// goroutine that was unwound with the rest - and a flush goroutine of
		// the dead process that is still blocked when the run ends is no leak.
		ignoreLeak = true
		if r.Failed() {
			return
		}
		// restart: a second syncer continues on the same device; the
		// concatenation must still be whole writes, each once
		w.sink.Dead = false
		before := len(w.sink.Data)
		bws2 := &zapcore.BufferedWriteSyncer{WS: w.sink, Size: w.size, FlushInterval: time.Second}
		bws2.Clock = clk.For(unsafe.Pointer(bws2), unsafe.Sizeof(*bws2))
		var fresh []*c12op
		for k := 0; k < 1+g.Draw(3) && nextID < 126; k++ {
			op := &c12op{kind: 'W', n: 1 + g.Draw(2*eff), id: nextID}
			nextID++
			for len(w.writes) <= op.id {
				w.writes = append(w.writes, nil)
			}
			w.writes[op.id] = op
			p := w.payload(op)
			if n, err := bws2.Write(p); n != len(p) || err != nil {
				c.Fail("C12: Write on a healthy sink did not accept the whole payload", "after restart: (%d, %v)", n, err)
				return
			}
			fresh = append(fresh, op)
		}
		if err := bws2.Stop(); err != nil {
			c.Fail("C12-E: Stop returned an error on a healthy sink", "after restart: %v", err)
			return
		}
		ids, ok, why := w.parse(w.sink.Data)
		if !ok {
			c.Fail("C12-H: after a kill and a restart the sink does not hold whole caller writes", "%s", why)
			return
		}
		seen := map[int]bool{}
		for _, id := range ids {
			if seen[id] {
				c.Fail("C12-H: after a kill and a restart a caller write is in the sink twice", "write #%d", id)
				return
			}
			seen[id] = true
		}
		tail, _, _ := w.parse(w.sink.Data[before:])
		if len(tail) != len(fresh) {
			c.Fail("C12-H: after a restart the new writes did not all reach the sink after the old content", "%d new writes, %d found after offset %d", len(fresh), len(tail), before)
			return
		}
		r.Probe("restart after kill: second syncer continued on the same device")
		return
	}

	// ---- end of run: every op returned (G), final Stop, E, leak check ----
	for t, p := range w.progs {
		for i, op := range p {
			if op.ret == 0 {
				c.Fail("C12-G: an operation never returned", "task t%d op %d (%c) did not return", t, i, op.kind)
				return
			}
		}
	}
	stopCalled := w.firstStopInv != 0
	if err := w.bws.Stop(); err != nil {
		c.Fail("C12-E: Stop returned an error on a healthy sink", "final Stop: %v", err)
	}
	synctest.Wait()
	if !stopCalled {
		// this Stop performed the stop: everything accepted is out and synced
		w.checkAllDelivered("final Stop", int64(1)<<62)
	} else {
		// writes accepted after a Stop stay buffered until the next Sync
		if err := w.bws.Sync(); err != nil {
			c.Fail("C12-D: Sync returned an error on a healthy sink", "final Sync: %v", err)
		}
		w.checkAllDelivered("final Sync", int64(1)<<62)
	}
	w.checkOrder()
	// goroutine liveness after Stop: a flush goroutine that is still blocked
	// when the bubble ends makes synctest panic, which ExecOne reports as
	// "goroutine leak" (deterministic, unlike runtime.NumGoroutine).
}

// muAddr: the mutex is the first unexported field after the four exported
// ones; the simulator only needs *an* address inside the syncer for labelling
// and probes, correctness never depends on it.
func muAddr(b *zapcore.BufferedWriteSyncer) unsafe.Pointer { return unsafe.Pointer(b) }

// dead unwinds a task that returns from an operation after the simulated
// process has been killed (a real process would not be running any more).
func (w *c12) dead() {
	if w.killed {
		runtime.Goexit()
	}
}

// next hands out event numbers. It is atomic because a syncer whose lock is
// not one of the modelled primitives (a channel used as a semaphore, say) hands
// the lock over in real time: for a moment the releasing and the released task
// both run.
func (w *c12) next() int64 { return atomic.AddInt64(&w.ev, 1) }

func (w *c12) exec(op *c12op) {
	c := w.c
	op.inv = w.next()
	w.inOp.Add(1)
	defer w.inOp.Add(-1)
	switch op.kind {
	case 'W':
		p := w.payload(op)
		n, err := w.bws.Write(p)
		// a Writer must not retain p: the caller reuses it at once
		for i := range p {
			p[i] = 0x7E
		}
		w.dead()
		op.ret, op.gotN, op.err = w.next(), n, err
		if err != nil || n != len(p) {
			c.Fail("C12: Write on a healthy sink did not accept the whole payload", "Write#%d(len %d) returned (%d, %v)", op.id, len(p), n, err)
		}
	case 'S':
		inv := op.inv
		err := w.bws.Sync()
		w.dead()
		op.ret, op.err = w.next(), err
		if err != nil {
			c.Fail("C12-D: Sync returned an error on a healthy sink", "Sync: %v", err)
			return
		}
		w.checkAllDelivered("Sync", inv)
	case 'X':
		if w.firstStopInv == 0 {
			w.firstStopInv = op.inv
		}
		w.stopsInFlight++
		err := w.bws.Stop()
		w.dead()
		w.stopsInFlight--
		op.ret, op.err = w.next(), err
		if err != nil {
			c.Fail("C12-E: Stop returned an error on a healthy sink", "Stop: %v", err)
			return
		}
		if w.stopsInFlight == 0 {
			// everything accepted before the first Stop was invoked is out
			w.checkAllDelivered("Stop", w.firstStopInv)
		} else {
			c.R.Probe("a Stop returned while another Stop was in progress (not judged)")
		}
	}
}

// checkAllDelivered: every write that had returned before harness event
// `before` is in the sink, and the sink was synced after the last of those bytes.
func (w *c12) checkAllDelivered(what string, before int64) {
	c := w.c
	// a sink write of another task may be in progress right now (that a
	// returning Sync or Stop excludes it is how zap happens to lock, not
	// something the statement says); it is judged when it completes
	ids, ok, why := w.parse(w.sink.Committed())
	if !ok {
		c.Fail("C12-B: the sink stream is not a sequence of whole caller writes", "at %s: %s", what, why)
		return
	}
	end := map[int]int{}
	off := 0
	for _, id := range ids {
		off += w.writes[id].n
		end[id] = off
	}
	for id, op := range w.writes {
		if op == nil || op.ret == 0 || op.ret >= before {
			continue
		}
		e, present := end[id]
		if !present {
			c.Fail("C12-D/E/F: after "+what+" an accepted write is not in the sink", "write #%d (len %d) returned at event %d, before the %s invoked at event %d, but is not in the sink (%d bytes, %d writes)", id, op.n, op.ret, what, before, len(w.sink.Data), len(ids))
			return
		}
		if e > w.sink.SyncedLen {
			c.Fail("C12-D/E/F: after "+what+" the sink was not synced past an accepted write", "write #%d ends at sink offset %d but the sink is synced only up to %d", id, e, w.sink.SyncedLen)
			return
		}
		w.ackedIDs[id] = true
	}
}

// checkOrder: invariant B over the whole sink stream.
func (w *c12) checkOrder() {
	c := w.c
	ids, ok, why := w.parse(w.sink.Committed())
	if !ok {
		c.Fail("C12-B: the sink stream is not a sequence of whole caller writes", "%s", why)
		return
	}
	pos := map[int]int{}
	for i, id := range ids {
		if _, dup := pos[id]; dup {
			c.Fail("C12-B: a caller write reached the sink twice", "write #%d at positions %d and %d", id, pos[id], i)
			return
		}
		pos[id] = i
	}
	for a, opa := range w.writes {
		if opa == nil {
			continue
		}
		pa, oka := pos[a]
		if !oka {
			continue
		}
		for b, opb := range w.writes {
			if opb == nil || a == b {
				continue
			}
			pb, okb := pos[b]
			if !okb {
				continue
			}
			// a returned before b was invoked => a precedes b
			if opa.ret != 0 && opa.ret < opb.inv && pa > pb {
				c.Fail("C12-B: writes reached the sink out of order", "write #%d returned (event %d) before write #%d was invoked (event %d) but follows it in the sink", a, opa.ret, b, opb.inv)
				return
			}
		}
	}
}

func (w *c12) onStep(clk *zsim.SimClock) {
	c := w.c
	// C: never more than Size held back
	if w.size > 0 {
		acc := 0
		for _, op := range w.writes {
			if op != nil && op.ret != 0 {
				acc += op.n
			}
		}
		if held := acc - len(w.sink.Data); held > w.size {
			c.Fail("C12-C: more than the configured size is held back", "accepted %d bytes, sink has %d, held back %d > Size %d", acc, len(w.sink.Data), held, w.size)
			return
		}
	}
	// F: a delivered tick has been processed when it is consumed, the flush
	// goroutine is not parked inside the simulator, and no task is inside an
	// operation of the syncer - so that nobody can be holding the syncer's lock,
	// whatever it is made of, and the flush goroutine (durably blocked, like
	// everything at this point) can only be waiting for its next tick
	if len(clk.Tickers) > 0 && !w.killed && w.firstStopInv == 0 {
		tk := clk.Tickers[0]
		if c12tickStuck(c, tk, &w.stuck, w.inOp.Load() == 0) {
			return
		}
	}
	if len(w.ticksPending) > 0 && len(clk.Tickers) > 0 {
		tk := clk.Tickers[0]
		// (or asleep inside a slow device: it holds the lock, on the bubble's clock)
		busy := c.R.BGParkedIn(tk.Owner, tk.OwnerLen) || c.R.Sleepers.Load() > 0
		if !busy && len(tk.C) == 0 && w.inOp.Load() == 0 {
			at := w.ticksPending[0].at
			w.ticksPending = w.ticksPending[1:]
			w.checkAllDelivered("flush tick", at)
			c.R.Probe("flush tick processed")
		}
	}
}

// c12tickStuck: bounded liveness of the tick path. At a quiescent point every
// goroutine is blocked. If a delivered tick still sits in the ticker's channel
// there, although the syncer was not stopped, nobody is inside one of its
// operations (so nobody holds its lock, whatever that is made of) and the
// flush goroutine is not parked inside the simulator, then the flush goroutine
// is not waiting for ticks any more: one that did would have taken this one.
// Seen at two such quiescent points for the same tick it is reported.
func c12tickStuck(c *Ctx, tk *zsim.SimTicker, count *int, idle bool) bool {
	if len(tk.C) == 0 {
		*count = 0
		return false
	}
	if idle && !c.R.BGParkedIn(tk.Owner, tk.OwnerLen) && c.R.Sleepers.Load() == 0 {
		*count++
		if *count >= 2 {
			c.Fail("C12-F: a delivered flush tick is never processed although the syncer has not been stopped", "the same tick sits in the ticker's channel at two quiescent points at which nothing could keep a flush goroutine from taking it: none is taking ticks any more")
			return true
		}
	}
	return false
}

// crashOracle: after a kill the device holds a whole-write-aligned prefix of
// the stream containing at least everything acknowledged by Sync.
func (w *c12) crashOracle() {
	c := w.c
	ids, ok, why := w.parse(w.sink.Data)
	if !ok {
		c.Fail("C12-H: after a kill the sink does not hold whole caller writes", "%s", why)
		return
	}
	present := map[int]bool{}
	for _, id := range ids {
		if present[id] {
			c.Fail("C12-H: after a kill a caller write is in the sink twice", "write #%d", id)
			return
		}
		present[id] = true
	}
	for id := range w.ackedIDs {
		if !present[id] {
			c.Fail("C12-H: a write acknowledged by Sync is missing after a kill", "write #%d", id)
			return
		}
	}
	// per-task order, and no gaps inside a task: if a later write of a task is
	// present, all its earlier non-empty writes are too
	for t, p := range w.progs {
		last := -1
		lastPos := -1
		for _, op := range p {
			if op.kind != 'W' || op.id < 0 {
				continue
			}
			if present[op.id] {
				pos := indexOf(ids, op.id)
				if pos < lastPos {
					c.Fail("C12-H: after a kill the writes of one task are out of order", "task t%d: write #%d precedes #%d in the sink", t, op.id, last)
					return
				}
				last, lastPos = op.id, pos
			}
		}
		seenMissing := -1
		for _, op := range p {
			if op.kind != 'W' || op.id < 0 {
				continue
			}
			if !present[op.id] {
				seenMissing = op.id
			} else if seenMissing >= 0 {
				c.Fail("C12-H: after a kill the sink is not a prefix of the stream", "task t%d: write #%d is present but the earlier write #%d is missing", t, op.id, seenMissing)
				return
			}
		}
	}
}

func indexOf(xs []int, x int) int {
	for i, y := range xs {
		if y == x {
			return i
		}
	}
	return -1
}

// runC12faulty: the same syncer over a device that fails now and then (write
// error, torn write, sync error) and recovers. "Accepted" then means "Write
// reported these bytes as taken". Judged: the device always holds a prefix of
// the accepted stream - nothing lost in the middle, duplicated or appended
// behind a hole - and whenever Sync or Stop reports success, all of it, synced.
func runC12faulty(c *Ctx) {
	g, f, r := c.G, c.F, c.R
	sink := zsim.NewSimSink(r, "dev", 1+g.Draw(2), uint64(g.Draw(1<<16))+1)
	sink.MustProgress = true
	r.Label(unsafe.Pointer(sink), "dev")
	for i := 0; i < 12; i++ {
		var o zsim.Outcome
		switch f.Weighted(7, 2, 2, 1) {
		case 1:
			o.Short, o.Err = -1, fmt.Errorf("injected write error #%d", i)
		case 2:
			// part of the bytes taken, then an interruption: an error that calls
			// itself temporary (EINTR, EAGAIN) or the generic short-write error
			o.Short, o.Err = 1+f.Draw(4), []error{io.ErrShortWrite, syscall.EINTR, syscall.EAGAIN}[f.Draw(3)]
		case 3:
			o.Short, o.Err = 1, fmt.Errorf("injected torn write #%d", i)
		}
		sink.WritePlan = append(sink.WritePlan, o)
	}
	// one run in four: a device that cannot be synced at all (a pipe or a
	// terminal: every Sync answers EINVAL or ENOTTY) - its write faults still count
	unsyncable := f.Chance(4)
	for i := 0; i < 6 || (unsyncable && i < 64); i++ {
		var se error
		if f.Chance(5) {
			se = fmt.Errorf("injected sync error #%d", i)
		}
		if unsyncable {
			se = &os.PathError{Op: "sync", Path: "/dev/stdout", Err: []error{syscall.EINVAL, syscall.ENOTTY}[i%2]}
		}
		sink.SyncPlan = append(sink.SyncPlan, se)
	}
	if unsyncable {
		c.R.Probe("device whose every Sync answers EINVAL/ENOTTY")
	}
	clk := zsim.NewSimClock(r, drawEpoch(g))
	size := pick(g, 4, 8, 16, 32, 64)
	var dev zapcore.WriteSyncer = sink
	if g.Chance(3) {
		dev = zapcore.Lock(sink)
		c.Describe("device behind zapcore.Lock")
		c.R.Probe("device behind zapcore.Lock")
	}
	b := &zapcore.BufferedWriteSyncer{WS: dev, Size: size, FlushInterval: time.Second}
	b.Clock = clk.For(unsafe.Pointer(b), unsafe.Sizeof(*b))
	type fop struct {
		kind byte
		n    int
	}
	var ops []fop
	nOps := 2 + g.Draw(12)
	for i := 0; i < nOps; i++ {
		if g.Weighted(5, 2) == 0 {
			ops = append(ops, fop{'W', 1 + g.Draw(2*size)})
		} else {
			ops = append(ops, fop{'S', 0})
		}
	}
	ops = append(ops, fop{'X', 0})
	tickBudget := g.Draw(4)
	var stream []byte
	var desc []string
	judge := func(i int, what string, success bool) bool {
		if !bytes.HasPrefix(stream, sink.Data) {
			c.Fail("C12: over a device that fails and recovers, bytes reached the sink that are not a prefix of the accepted stream (lost in the middle, duplicated or appended behind a hole)", "after op %d (%s): sink %q, accepted stream %q", i, what, clip(sink.Data), clip(stream))
			return false
		}
		if success && (!bytes.Equal(sink.Data, stream) || sink.SyncedLen != len(sink.Data)) {
			c.Fail("C12-D: Sync or Stop reported success although accepted bytes are not in the sink or not synced", "after op %d (%s): sink holds %d bytes (%d synced), accepted %d: sink %q, accepted stream %q", i, what, len(sink.Data), sink.SyncedLen, len(stream), clip(sink.Data), clip(stream))
			return false
		}
		return true
	}
	var inOp atomic.Int32
	stopped, stuck := false, 0
	r.OnStep = func() {
		if len(clk.Tickers) > 0 && !stopped {
			c12tickStuck(c, clk.Tickers[0], &stuck, inOp.Load() == 0)
		}
	}
	r.Go("main", func() {
		for i, op := range ops {
			inOp.Store(1)
			if op.kind == 'X' {
				stopped = true
			}
			switch op.kind {
			case 'W':
				p := bytes.Repeat([]byte{byte('a' + i%26)}, op.n)
				n, err := b.Write(p)
				desc = append(desc, fmt.Sprintf("W(%d)=(%d,%v)", op.n, n, err != nil))
				if n < 0 || n > len(p) || (n < len(p) && err == nil) {
					c.Fail("C12: Write reported an impossible count", "Write(len %d) = (%d, %v)", len(p), n, err)
					return
				}
				stream = append(stream, p[:n]...)
				if !judge(i, desc[len(desc)-1], false) {
					return
				}
			case 'S':
				err := b.Sync()
				desc = append(desc, fmt.Sprintf("Sync=%v", err != nil))
				if !judge(i, desc[len(desc)-1], err == nil) {
					return
				}
			case 'X':
				err := b.Stop()
				desc = append(desc, fmt.Sprintf("Stop=%v", err != nil))
				if !judge(i, desc[len(desc)-1], err == nil) {
					return
				}
			}
			inOp.Store(0)
			zsim.Yield(zsim.KOp, nil)
		}
	})
	ticks := 0
	if tickBudget > 0 {
		r.AddEvent(&zsim.Event{Name: "tick", Avail: func() bool { return ticks < tickBudget && clk.TickAny(false) }, Fire: func() {
			ticks++
			c.Fault("tick")
			clk.TickAny(true)
		}})
	}
	c.Sim()
	for k, v := range sink.Fired {
		c.Faults[k] += v
	}
	c.Describe("member=faulty-device size=%d ticks<=%d ops=%s faults=%v policy=%s", size, tickBudget, strings.Join(desc, " "), sink.Fired, r.Policy)
	c.MixState(uint64(len(sink.Data))<<16 | uint64(len(stream)))
	c.Nontrivial = len(sink.Fired) > 0
}

// runC12stacked: one buffered syncer on top of another (two cores with their
// own buffering policy over one shared, buffered file). The upper one's sink
// is the lower syncer: whatever it flushes is accepted by the lower one at
// that moment, behind everything the lower one accepted before. One task
// writes lines to the upper and - like a second core sharing it - to the
// lower syncer, with Syncs of either. At the device: every line whole and at
// most once; lines of one source in their order; a line written through the
// upper syncer never ahead of a line the lower one had accepted before that
// write was issued; after a Sync of the upper syncer (flush into the lower
// one, then its Sync) or after stopping both, every line issued so far.
func runC12stacked(c *Ctx) {
	g, r := c.G, c.R
	sink := zsim.NewSimSink(r, "dev", 1+g.Draw(2), uint64(g.Draw(1<<16))+1)
	r.Label(unsafe.Pointer(sink), "dev")
	clk := zsim.NewSimClock(r, drawEpoch(g))
	var lowSize, upSize int
	switch g.Draw(4) {
	case 0: // both at the default
	case 1:
		lowSize, upSize = pick(g, 64, 128, 512), pick(g, 16, 32, 64)
	case 2:
		lowSize = pick(g, 32, 64)
		upSize = lowSize
	default:
		lowSize, upSize = pick(g, 16, 32), pick(g, 64, 128)
	}
	lower := &zapcore.BufferedWriteSyncer{WS: sink, Size: lowSize, FlushInterval: time.Hour}
	lower.Clock = clk.For(unsafe.Pointer(lower), unsafe.Sizeof(*lower))
	upper := &zapcore.BufferedWriteSyncer{WS: lower, Size: upSize, FlushInterval: time.Hour}
	upper.Clock = clk.For(unsafe.Pointer(upper), unsafe.Sizeof(*upper))
	type sop struct {
		kind byte // 'U' write to upper, 'L' write to lower, 'u' Sync upper, 'l' Sync lower
		n    int
	}
	var ops []sop
	for i, n := 0, 3+g.Draw(12); i < n; i++ {
		switch g.Weighted(5, 4, 2, 1) {
		case 0:
			ops = append(ops, sop{'U', 4 + g.Draw(40)})
		case 1:
			ops = append(ops, sop{'L', 4 + g.Draw(40)})
		case 2:
			ops = append(ops, sop{'u', 0})
		default:
			ops = append(ops, sop{'l', 0})
		}
	}
	c.Describe("member=stacked lower-size=%d upper-size=%d ops=%v", lowSize, upSize, ops)
	c.Nontrivial = true
	c.R.Probe("a buffered syncer on top of another buffered syncer")
	type line struct {
		idx   int
		upper bool
	}
	issued := map[string]line{}
	var order []string
	// judge parses what the device holds; all: every issued line must be there
	judge := func(when string, all bool) bool {
		data := sink.Data
		seen := map[string]bool{}
		var lastU, lastL = -1, -1
		var got []line
		for len(data) > 0 {
			nl := bytes.IndexByte(data, '\n')
			if nl < 0 {
				if all {
					c.Fail("C12: stacked syncers: the device holds a torn line after everything was flushed", "%s: device ends in %q", when, clip(data))
					return false
				}
				break
			}
			l := string(data[:nl+1])
			data = data[nl+1:]
			ln, ok := issued[l]
			if !ok || seen[l] {
				c.Fail("C12: stacked syncers: the device holds a line that was not written, or holds one twice", "%s: line %q (issued=%v, seen before=%v); device %q", when, clip([]byte(l)), ok, seen[l], clip(sink.Data))
				return false
			}
			seen[l] = true
			if ln.upper {
				if ln.idx < lastU {
					c.Fail("C12: stacked syncers: lines of one source reached the device out of order", "%s: upper line #%d after #%d", when, ln.idx, lastU)
					return false
				}
				lastU = ln.idx
			} else {
				if ln.idx < lastL {
					c.Fail("C12: stacked syncers: lines of one source reached the device out of order", "%s: lower line #%d after #%d", when, ln.idx, lastL)
					return false
				}
				lastL = ln.idx
			}
			got = append(got, ln)
		}
		// an upper line ahead of a lower line that was accepted before it was issued
		for i, a := range got {
			if !a.upper {
				continue
			}
			for _, b := range got[i+1:] {
				if !b.upper && b.idx < a.idx {
					c.Fail("C12: stacked syncers: bytes written through the upper syncer overtook bytes its sink had accepted before", "%s: line #%d (through the upper syncer) lies before line #%d (written to the lower syncer earlier); device %q", when, a.idx, b.idx, clip(sink.Data))
					return false
				}
			}
		}
		if all && len(seen) != len(order) {
			c.Fail("C12-D: Sync or Stop reported success although accepted bytes are not in the sink or not synced", "%s (stacked syncers): %d of %d lines on the device; device %q", when, len(seen), len(order), clip(sink.Data))
			return false
		}
		return true
	}
	r.Go("main", func() {
		for i, op := range ops {
			switch op.kind {
			case 'U', 'L':
				p := []byte(fmt.Sprintf("%c%03d%s\n", op.kind, i, strings.Repeat(string(rune('a'+i%26)), op.n)))
				issued[string(p)] = line{i, op.kind == 'U'}
				order = append(order, string(p))
				ws := zapcore.WriteSyncer(lower)
				if op.kind == 'U' {
					ws = upper
				}
				if n, err := ws.Write(p); n != len(p) || err != nil {
					c.Fail("C12: Write over a healthy sink did not return (len(p), nil)", "stacked syncers op %d %c: (%d, %v)", i, op.kind, n, err)
					return
				}
				for j := range p {
					p[j] = '#'
				}
				if !judge(fmt.Sprintf("after op %d (write)", i), false) {
					return
				}
			case 'u':
				if err := upper.Sync(); err != nil {
					c.Fail("C12: Sync over a healthy sink returned an error", "stacked syncers op %d: %v", i, err)
					return
				}
				if !judge(fmt.Sprintf("after op %d (Sync of the upper syncer)", i), true) {
					return
				}
			case 'l':
				if err := lower.Sync(); err != nil {
					c.Fail("C12: Sync over a healthy sink returned an error", "stacked syncers op %d: %v", i, err)
					return
				}
				if !judge(fmt.Sprintf("after op %d (Sync of the lower syncer)", i), false) {
					return
				}
			}
			zsim.Yield(zsim.KOp, nil)
		}
		if err := upper.Stop(); err != nil {
			c.Fail("C12: Stop over a healthy sink returned an error", "stacked syncers, upper: %v", err)
			return
		}
		if err := lower.Stop(); err != nil {
			c.Fail("C12: Stop over a healthy sink returned an error", "stacked syncers, lower: %v", err)
			return
		}
		judge("after both were stopped", true)
	})
	c.Sim()
	if !r.Failed() && len(order) > 0 && sink.SyncedLen != len(sink.Data) {
		c.Fail("C12-D: Sync or Stop reported success although accepted bytes are not in the sink or not synced", "stacked syncers: %d of %d device bytes synced after both were stopped", sink.SyncedLen, len(sink.Data))
	}
}
