package props

import (
	"context"
	"errors"
	"fmt"
	"log/slog"
	"net/http"
	"net/http/httptest"
	"net/url"
	"strings"
	"time"
	"unsafe"

	"go.uber.org/zap"
	"go.uber.org/zap/exp/zapslog"
	"go.uber.org/zap/zapcore"
	"go.uber.org/zap/zaptest/observer"

	"verif/simsync"
	"verif/zsim"
)

// C09 — the documented concurrent API is free of data races, deadlocks and panics.
//
// Built with -race. The scheduler's hand-off is hidden from the race detector
// (runtime.RaceDisable around the hand-off channel operations only), so the
// detector sees exactly the happens-before edges of the code under test.
// Harness discipline: tasks share nothing with each other or with the root
// except through zap; sinks only read their payload.

func init() {
	register(&Prop{
		ID:  "C09",
		Run: runC09,
		Rule: "one case = a generated program of 2-4 tasks x 1-10 operations over shared loggers (plain, With, fresh WithLazy, Named, sugared), AtomicLevel (incl. its HTTP handler), globals, tee/sampler/hooked/level-increased/lazy/observer cores and observer readers, the slog handler, a BufferedWriteSyncer with ticks, locked and combined syncers, and the sink/encoder registries, on fresh or warmed-up objects, under one seeded schedule with the race detector on; " +
			"non-trivial = at least 2 tasks executed at least one operation each on a shared object; distinct = distinct hash of (scheduling decision sequence, program)",
		Real: []string{"everything in zap and zapcore reached by the operations", "zaptest/observer", "exp/zapslog", "Go race detector (ThreadSanitizer runtime) observing real mutex/atomic/once operations inside the shims"},
		Stub: []string{"sinks (payload is read, nothing shared is written)", "clock/ticker (zsim.SimClock)", "sync.Pool (simsync.Pool with per-object release/acquire edges, like sync.Pool)"},
	})
}

// raceSink reads what it is given (so that a buffer rewritten by another
// goroutine during the write is a reported race) and, like a real
// non-thread-safe device, keeps plain unsynchronised state that both Write
// and Sync touch: zap promises such a sink exclusive access (Lock,
// BufferedWriteSyncer, CombineWriteSyncers), so two overlapping calls on it
// are a data race that zap's own locking failed to prevent.
type raceSink struct {
	n      int
	synced int
	// failEvery > 0: every failEvery-th Write fails (alternately taking
	// nothing and taking half of the line), like a device that is full or
	// flaky now and then; what zap does on its error paths is part of the
	// concurrent surface too
	failEvery int
	calls     int
	syncs     int
}

func (s *raceSink) bump() { s.n++ }

var sinkhole byte

func (s *raceSink) Write(p []byte) (int, error) {
	zsim.Yield(zsim.KSink, unsafe.Pointer(s))
	var x byte
	for _, b := range p[:len(p)/2] {
		x ^= b
	}
	zsim.Yield(zsim.KSink, unsafe.Pointer(s))
	for _, b := range p[len(p)/2:] {
		x ^= b
	}
	if x == 0xFF && len(p) == 1<<30 {
		sinkhole = x
	}
	s.bump()
	s.calls++
	if s.failEvery > 0 && s.calls%s.failEvery == 0 {
		switch (s.calls / s.failEvery) % 3 {
		case 0:
			return 0, errC09device
		case 1:
			return len(p) / 2, errC09device
		}
		return len(p) / 2, nil // a short count without an error
	}
	return len(p), nil
}

var errC09device = errors.New("injected device failure")

func (s *raceSink) Sync() error {
	zsim.Yield(zsim.KSink, unsafe.Pointer(s))
	s.synced = s.n
	zsim.Yield(zsim.KSink, unsafe.Pointer(s))
	s.synced = s.n
	s.syncs++
	if s.failEvery > 0 && s.syncs%2 == 1 {
		return errC09device // a flaky device also fails every other Sync
	}
	return nil
}
func (s *raceSink) Close() error { return nil }

type c09op struct {
	kind, a, b, c int // a: which shared object, b and c: which variant
}

type c9valuer struct{ n int }

func (v c9valuer) LogValue() slog.Value { return slog.GroupValue(slog.Int("n", v.n)) }

type c09world struct {
	encStyle  int  // 0: the default test encoder
	oddLevels bool // some entries at levels outside Debug..Fatal
	lvl       zap.AtomicLevel
	loggers   []*zap.Logger
	sugars    []*zap.SugaredLogger
	logs      *observer.ObservedLogs
	handler   slog.Handler
	handler3  slog.Handler // three pending groups: derivations from it share whatever backing storage the handler keeps
	bws       *zapcore.BufferedWriteSyncer
	restore   func()      // the restore function of a ReplaceGlobals made during set-up
	common    []zap.Field // a field slice shared (read-only) by all tasks
	locked    zapcore.WriteSyncer
	combined  zapcore.WriteSyncer
	runTag    string
}

const c09kinds = 16

var c09kindNames = [...]string{"log", "sugar", "check+write", "derive+log", "level/enabled", "logger.Sync", "atomiclevel", "level-http", "globals", "observer-read", "slog", "bws", "registries", "panic-levels", "ws-direct", "lazy-derive"}

func runC09(c *Ctx) {
	g, r := c.G, c.R
	// a recycled object carries a happens-before edge from its Put to its Get
	// (as with sync.Pool); with a single global free list that edge would
	// order almost every pair of tasks and hide races between them, whereas
	// real pools are per-P. Half of the runs therefore never recycle.
	simsync.SetPolicy(pick(g, simsync.PoolFresh, simsync.PoolFresh, simsync.PoolLIFO, simsync.PoolRandom), uint64(g.Draw(1<<16))+1, 0)
	w := &c09world{}
	w.lvl = zap.NewAtomicLevelAt(stdLevels[g.Draw(3)])
	// one run in three: the encoders render levels, times, durations and callers
	// with another member of each encoder family, and some entries carry levels
	// outside the named range (a "trace" level below Debug, one above Fatal)
	if g.Chance(3) {
		w.encStyle = 1 + g.Draw(1<<16)
		w.oddLevels = true
		if g.Chance(2) {
			w.lvl.SetLevel(zapcore.Level(-3))
		}
		c.R.Probe("encoder family members other than the default, levels outside the named range")
	}
	clk := zsim.NewSimClock(r, drawEpoch(g))
	table := map[string]func(u *url.URL) (zap.Sink, error){}
	useSimScheme(table)
	table["c09"] = func(u *url.URL) (zap.Sink, error) { return &raceSink{}, nil }

	// ---- core composition (swarm) ----
	flaky := c.F.Chance(3)
	mkIO := func(console bool) zapcore.Core {
		sk := &raceSink{}
		if flaky {
			sk.failEvery = 2 + c.F.Draw(3)
			c.Fault("flaky-device")
		}
		return zapcore.NewCore(w.encoder(console), zapcore.Lock(sk), w.lvl)
	}
	guardDoublePut = c
	defer func() { guardDoublePut = nil }()
	obsCore, logs := observer.New(zapcore.DebugLevel)
	w.logs = logs
	var core zapcore.Core
	shape := g.Draw(8)
	useSampler := false
	switch shape {
	case 7:
		// a wide tee: six IO cores (one of them hooked) and the observer
		core = zapcore.NewTee(mkIO(false), mkIO(true), mkIO(false), zapcore.RegisterHooks(mkIO(false), func(zapcore.Entry) error { return nil }), mkIO(false), mkIO(false), obsCore)
	case 0:
		core = mkIO(false)
	case 1:
		core = zapcore.NewTee(mkIO(false), obsCore)
	case 2:
		core = zapcore.NewTee(mkIO(g.Chance(2)), mkIO(false), obsCore)
	case 3:
		core = zapcore.RegisterHooks(zapcore.NewTee(mkIO(false), obsCore), func(zapcore.Entry) error { return nil })
	case 4:
		ic, err := zapcore.NewIncreaseLevelCore(zapcore.NewTee(mkIO(false), obsCore), zapcore.InfoLevel)
		if err != nil {
			core = obsCore
		} else {
			core = ic
		}
	case 5:
		useSampler = true
		core = zapcore.NewSamplerWithOptions(zapcore.NewTee(mkIO(false), obsCore), time.Second, 2, 3)
	case 6:
		core = zapcore.NewLazyWith(zapcore.NewTee(mkIO(false), obsCore), []zapcore.Field{zap.Int("lazy", 1)})
	}
	opts := []zap.Option{zap.WithClock(clk)}
	if g.Chance(3) {
		opts = append(opts, zap.AddCaller())
	}
	if g.Chance(4) {
		opts = append(opts, zap.AddStacktrace(zapcore.ErrorLevel))
	}
	if g.Chance(3) || flaky {
		opts = append(opts, zap.ErrorOutput(zapcore.Lock(&raceSink{})))
	}
	base := zap.New(core, opts...)
	// shared loggers: some fresh (first use happens under contention)
	w.restore = zap.ReplaceGlobals(base.Named("global"))
	w.common = []zap.Field{zap.String("service", "c09"), zap.Error(errors.New("common error")), zap.Int("shard", 7), zap.Reflect("build", map[string]int{"n": 1}), zap.Skip(), zap.Time("born", time.Unix(1, 0).UTC())}
	w.loggers = []*zap.Logger{
		base,
		base.With(zap.Int("shared", 1), zap.String("k", "v")),
		base.WithLazy(zap.Int("lz", 1)),
		base.Named("svc"),
		base.WithLazy(zap.String("a", "b")).With(zap.Int("c", 1)),
		base.WithLazy(zap.Int("l1", 1)).WithLazy(zap.Int("l2", 2)),
		base.With(zap.Int("x", 1), zap.Namespace("open")), // context ends in a namespace that stays open
		base.With(zap.Reflect("ctx", map[string]any{"k": []int{1, 2}}), zap.Int("after", 1)),
		base.With(zap.Any("cfg", struct{ A, B int }{1, 2})).Named("r"),
		base.Named("r2").With(zap.Reflect("m", map[string]string{"x": "y"})),
	}
	// a logger that already carries hooks added one WithOptions at a time
	// (derivations from it must not share any hook storage)
	nop := func(zapcore.Entry) error { return nil }
	hooked3 := base
	for i := 0; i < 1+g.Draw(5); i++ {
		hooked3 = hooked3.WithOptions(zap.Hooks(nop))
	}
	w.loggers = append(w.loggers, hooked3)
	// a logger whose only destination was opened through zap.Open from a
	// registered scheme: the sink itself is not synchronised, what Open hands
	// back is
	if ws, closeOpen, err := zap.Open("zsim://c09/only"); err == nil {
		defer closeOpen()
		w.loggers = append(w.loggers, zap.New(zapcore.NewCore(w.encoder(false), ws, w.lvl)))
	}
	for _, l := range w.loggers {
		w.sugars = append(w.sugars, l.Sugar())
	}
	w.handler = zapslog.NewHandler(core)
	w.handler3 = w.handler.WithGroup("a").WithGroup("b").WithGroup("c")
	bwsDev := &raceSink{}
	if flaky {
		// the buffered syncer's device is flaky too: timer-driven flushes and
		// explicit ones meet failing writes and failing syncs
		bwsDev.failEvery = 2 + c.F.Draw(3)
	}
	w.bws = &zapcore.BufferedWriteSyncer{WS: bwsDev, Size: pick(g, 16, 64, 256), FlushInterval: time.Second}
	w.bws.Clock = clk.For(unsafe.Pointer(w.bws), unsafe.Sizeof(*w.bws))
	w.locked = zapcore.Lock(&raceSink{})
	w.combined = zap.CombineWriteSyncers(&raceSink{}, &raceSink{})
	w.runTag = fmt.Sprintf("r%d", g.Draw(1000))

	warm := g.Chance(3)
	if warm {
		// warm-up prefix on the root: every shared logger has been used once
		for _, l := range w.loggers {
			l.Info("warm")
		}
	}

	// ---- programs ----
	nTasks := 2 + g.Weighted(5, 3, 1)
	maxOps := 6
	if c.Tier == "thorough" {
		maxOps = 10
	}
	// swarm: a random subset of operation kinds is enabled per run
	var enabledKinds []int
	for k := 0; k < c09kinds; k++ {
		if g.Draw(3) != 0 {
			enabledKinds = append(enabledKinds, k)
		}
	}
	if len(enabledKinds) == 0 {
		enabledKinds = []int{0, 3}
	}
	progs := make([][]c09op, nTasks)
	usesBWS := false
	// "burst": in a third of the runs every task starts with the same
	// operation on the same shared object, so that first use — and any
	// unsynchronised state behind that operation — happens under contention
	// before anything else has ordered the tasks
	// (the object index ranges over twice the longest list of shared objects:
	// with Draw(10) the eleventh shared logger - the one with chained hooks -
	// had become unreachable when the list grew; found by bin/seedregress)
	burst := g.Chance(2)
	burstOp := c09op{kind: enabledKinds[g.Draw(len(enabledKinds))], a: g.Draw(22), b: g.Draw(8), c: g.Draw(16)}
	for t := range progs {
		if burst {
			progs[t] = append(progs[t], burstOp)
			if burstOp.kind == 11 {
				usesBWS = true
			}
		}
		n := 1 + g.Draw(maxOps)
		for i := 0; i < n; i++ {
			op := c09op{kind: enabledKinds[g.Draw(len(enabledKinds))], a: g.Draw(22), b: g.Draw(8), c: g.Draw(16)}
			if op.kind == 11 {
				usesBWS = true
			}
			progs[t] = append(progs[t], op)
			c.MixState(uint64(op.kind)<<16 | uint64(op.a)<<8 | uint64(op.b))
		}
	}
	tickBudget := 0
	if usesBWS {
		tickBudget = g.Draw(3)
	}
	var pd []string
	for t, p := range progs {
		var b strings.Builder
		fmt.Fprintf(&b, "t%d:", t)
		for _, op := range p {
			fmt.Fprintf(&b, " %s(%d,%d)", c09kindNames[op.kind], op.a, op.b)
		}
		pd = append(pd, b.String())
	}
	c.Describe("core-shape=%d sampler=%v warm=%v tasks=%d ticks<=%d policy=%s", shape, useSampler, warm, nTasks, tickBudget, r.Policy)
	c.Describe("%s", strings.Join(pd, "; "))

	stopInvoked := &noraceFlag{}
	for t := range progs {
		prog := progs[t]
		t := t
		r.Go(fmt.Sprintf("t%d", t), func() {
			for i, op := range prog {
				if op.kind == 11 && op.b%4 == 3 {
					stopInvoked.set()
				}
				c09exec(c, w, t, i, op)
				zsim.Yield(zsim.KOp, nil)
			}
		})
	}
	ticks := 0
	if tickBudget > 0 {
		r.AddEvent(&zsim.Event{Name: "tick", Avail: func() bool {
			return ticks < tickBudget && !stopInvoked.get() && clk.TickAny(false)
		}, Fire: func() { ticks++; c.Fault("tick"); clk.TickAny(true) }})
	}
	c.Nontrivial = true
	c.Sim()
	_ = w.bws.Stop()
	zap.ReplaceGlobals(zap.NewNop())
}

type noraceFlag struct{ v bool }

//go:norace
func (f *noraceFlag) set() { f.v = true }

//go:norace
func (f *noraceFlag) get() bool { return f.v }

// noraceFlag is written by tasks and read by the root's event predicate; the
// accesses are ordered by the scheduler but invisible to the race detector,
// so they go through a norace helper.

func c09exec(c *Ctx, w *c09world, t, i int, op c09op) {
	defer func() {
		if p := recover(); p != nil {
			if op.kind == 13 {
				if s, ok := p.(string); ok && strings.HasPrefix(s, "c09-panic") {
					return // the panic of a Panic-level call is the specified behaviour
				}
			}
			c.Fail("C09: an operation of the concurrency-safe API panicked", "task t%d op %d %s(%d,%d): %v\n%s", t, i, c09kindNames[op.kind], op.a, op.b, p, stack())
		}
	}()
	l := w.loggers[op.a%len(w.loggers)]
	s := w.sugars[op.a%len(w.sugars)]
	lv := stdLevels[op.b%4]
	if w.oddLevels && op.kind <= 2 && (op.b+op.c)%3 == 0 {
		lv = []zapcore.Level{-3, -2, 7, 9, -2, 12}[(op.b+op.c)/3%6]
	}
	switch op.kind {
	case 0:
		if op.c%4 == 0 {
			l.Log(lv, "m", zap.Int("t", t), zap.Reflect("r", map[string]int{"i": i}), zap.Error(errors.New("e")))
		} else if op.c%4 == 1 {
			l.Log(lv, "rich", richFields(op.b+i, t)...)
		} else if op.c%4 == 2 {
			// from a deep call stack (stack capture beyond the pooled capacity)
			c8recurse([]int{70, 130, 300}[op.c/4%3], func() { l.Log(lv, "deep", zap.Int("t", t), zap.Stack("st")) })
		} else if op.c%8 == 3 {
			l.Log(lv, "no call-site fields")
		} else {
			l.Log(lv, "m", zap.Int("t", t), zap.Int("i", i), zap.Duration("d", time.Second), zap.Error(errors.New("e")))
		}
	case 1:
		switch (op.b + op.c) % 7 {
		case 0:
			s.Infow("m", "t", t, "i", i)
		case 1:
			s.Warnf("m %d %d", t, i)
		case 2:
			s.Errorln("m", t, i)
		case 3:
			// derivations on the shared sugared logger
			s.With("t", t, zap.Int("i", i)).Debugw("sugar child", "k", []int{t})
		case 4:
			s.WithLazy("t", t).Named("n").Info("sugar lazy child ", i)
		case 5:
			if op.c%2 == 0 {
				// Desugar on the shared value itself (it must not touch the
				// logger the sugared one wraps), and a derivation with no option
				s.Desugar().Info("desugared directly", zap.Int("t", t))
				s.WithOptions().Desugar().Info("desugared after no option", zap.Int("i", i))
			} else {
				s.WithOptions(zap.AddCallerSkip(0)).Desugar().Info("desugared", zap.Int("t", t))
			}
		default:
			// malformed key/value lists report through the same logger
			s.Warnw("odd", "dangling")
			s.Infow("two errors", errors.New("first"), errors.New("second"), "k", t)
			s.Log(lv, "m", t)
			s.Logw(lv, "m", 42, "non-string key")
		}
	case 2:
		if ce := l.Check(lv, "m"); ce != nil {
			ce.Write(zap.Int("t", t))
		}
	case 3:
		var ch *zap.Logger
		switch op.b % 4 {
		case 0:
			if op.c%3 == 0 {
				ch = l.With(zap.Int("t", t))
			} else if op.c%3 == 1 {
				ch = l.With(zap.Reflect("r", map[string]int{"t": t}), zap.Any("s", struct{ A, B int }{t, i}))
			} else {
				ch = l.With(richFields(op.b+t, i)...)
			}
		case 1:
			if op.c%2 == 0 {
				// one field slice, built once and only ever read by the tasks,
				// spread into the calls of all of them
				ch = l.WithLazy(w.common...)
				ch.Info("lazy child over the common fields", w.common...)
				ch = l.With(w.common...)
				break
			}
			ch = l.WithLazy(zap.Int("t", t))
		case 2:
			ch = l.Named(fmt.Sprintf("t%d", t))
		default:
			if op.c%2 == 0 {
				ch = l.WithOptions(zap.Fields(zap.Int("t", t)), zap.AddCallerSkip(0))
			} else {
				ch = l.WithOptions(zap.Hooks(func(zapcore.Entry) error { return nil }))
			}
		}
		ch.Info("child", zap.Int("i", i))
	case 4:
		_ = l.Level()
		_ = l.Core().Enabled(lv)
		_ = s.Level()
	case 5:
		_ = l.Sync()
	case 6:
		switch op.b % 6 {
		case 0:
			w.lvl.SetLevel(lv)
		case 1:
			_ = w.lvl.Level()
		case 2:
			_ = w.lvl.Enabled(lv)
		case 4:
			// the textual setters, through the one variable every task uses (a
			// configuration reload next to readers)
			_ = w.lvl.UnmarshalText([]byte(lv.String()))
		case 5:
			_, _ = w.lvl.MarshalText()
		default:
			_ = w.lvl.String()
		}
	case 7:
		rec := httptest.NewRecorder()
		var req *http.Request
		if op.b%2 == 0 {
			req = httptest.NewRequest("GET", "/", nil)
		} else {
			req = httptest.NewRequest("PUT", "/", strings.NewReader(fmt.Sprintf(`{"level":%q}`, lv.String())))
		}
		w.lvl.ServeHTTP(rec, req)
	case 8:
		switch op.b % 4 {
		case 0:
			if op.c%3 == 0 {
				// one restore function, obtained before the tasks started, called
				// by whoever gets here (it is part of the concurrency-safe surface)
				w.restore()
				break
			}
			undo := zap.ReplaceGlobals(l)
			if op.a%2 == 0 {
				undo()
			}
		case 1:
			zap.L().Info("global", zap.Int("t", t))
		case 2:
			zap.S().Infow("global", "t", t)
		default:
			_ = zap.L().Level()
		}
	case 9:
		switch op.b % 5 {
		case 0:
			_ = w.logs.Len()
		case 1:
			for _, e := range w.logs.All() {
				_ = e.ContextMap()
			}
		case 2:
			_ = w.logs.TakeAll()
		case 3:
			_ = w.logs.FilterMessage("m").Len()
		default:
			_ = w.logs.FilterField(zap.Int("t", t)).AllUntimed()
		}
	case 10:
		h := w.handler
		if op.a%2 == 1 {
			h = w.handler3
		}
		switch op.b % 4 {
		case 1:
			h = h.WithAttrs([]slog.Attr{slog.Int("t", t)})
		case 2:
			h = h.WithGroup("g").WithAttrs([]slog.Attr{slog.String("k", "v")})
		case 3:
			h = h.WithGroup(fmt.Sprintf("g%d", t))
		}
		rec := slog.NewRecord(time.Unix(0, 0), slog.LevelWarn, "slog", 0)
		rec.AddAttrs(slog.Int("i", i))
		if op.a%3 == 0 {
			// every attribute kind the handler converts, incl. nested groups,
			// inline (empty-key) groups and a LogValuer
			rec.AddAttrs(slog.Bool("b", true), slog.Duration("d", time.Second), slog.Float64("f", 1.5), slog.Time("tm", time.Unix(1, 0).UTC()),
				slog.Uint64("u", 7), slog.Group("grp", slog.Int("x", t), slog.Group("inner", slog.String("y", "z"))),
				slog.Group("", slog.Int("inl", t)), slog.Any("lv", c9valuer{t}), slog.Any("any", []int{t}), slog.Attr{})
		}
		if h.Enabled(context.Background(), slog.LevelWarn) {
			_ = h.Handle(context.Background(), rec)
		}
	case 11:
		switch op.b % 4 {
		case 0, 1:
			_, _ = w.bws.Write([]byte(strings.Repeat("x", 1+op.a*13)))
		case 2:
			_ = w.bws.Sync()
		default:
			_ = w.bws.Stop()
		}
	case 12:
		switch op.b % 4 {
		case 0:
			_ = zap.RegisterEncoder("zsim-enc", func(cfg zapcore.EncoderConfig) (zapcore.Encoder, error) {
				return zapcore.NewJSONEncoder(cfg), nil
			})
		case 1:
			cfg := zap.NewProductionConfig()
			cfg.OutputPaths = []string{"zsim://c09/x"}
			cfg.ErrorOutputPaths = []string{"zsim://c09/e"}
			if op.a%2 == 0 {
				cfg.Encoding = "zsim-enc"
			}
			if lg, err := cfg.Build(); err == nil {
				lg.Info("built")
			}
		case 2:
			if ws, cl, err := zap.Open("zsim://c09/y"); err == nil {
				_, _ = ws.Write([]byte("o\n"))
				cl()
			}
		default:
			_ = zap.RegisterSink("zsim", func(*url.URL) (zap.Sink, error) { return nil, errors.New("dup") })
		}
	case 13:
		switch op.b % 4 {
		case 0:
			l.DPanic("dpanic in production mode just logs")
		case 1:
			l.WithOptions(zap.WithPanicHook(c09panicHook{})).Panic("p")
		case 2:
			// the default action reads the entry's message after the cores wrote it
			l.Panic("c09-panic default action")
		default:
			l.WithOptions(zap.WithFatalHook(c09readHook{})).Fatal("fatal with a hook that reads the entry", zap.Int("t", t))
		}
	case 14:
		if op.b%2 == 0 {
			_, _ = w.locked.Write([]byte("direct\n"))
			_ = w.locked.Sync()
		} else {
			_, _ = w.combined.Write([]byte("direct\n"))
			_ = w.combined.Sync()
		}
	case 15:
		// derive from a (possibly still unused) lazy logger and use parent and child
		lz := w.loggers[2+(op.a%2)*3]
		switch op.b % 3 {
		case 0:
			lz.Info("lazy parent")
		case 1:
			lz.With(zap.Int("t", t)).Info("lazy child")
		default:
			_ = lz.Level()
			_ = lz.Sync()
		}
	}
}

type c09panicHook struct{}

func (c09panicHook) OnWrite(*zapcore.CheckedEntry, []zapcore.Field) { panic("c09-panic") }

type c09readHook struct{}

func (c09readHook) OnWrite(ce *zapcore.CheckedEntry, fs []zapcore.Field) {
	if len(ce.Message)+len(ce.LoggerName)+len(fs) < 0 || ce.Level > zapcore.FatalLevel+1 {
		sinkhole = 1
	}
}

// encoder: the default test encoder, or (encStyle != 0) one whose level,
// time, duration, caller and name encoders are other members of their families.
func (w *c09world) encoder(console bool) zapcore.Encoder {
	if w.encStyle == 0 {
		return newEncoder(console)
	}
	st := w.encStyle
	cfg := encCfg()
	cfg.EncodeLevel = []zapcore.LevelEncoder{zapcore.CapitalColorLevelEncoder, zapcore.LowercaseColorLevelEncoder, zapcore.CapitalLevelEncoder, zapcore.CapitalColorLevelEncoder}[st%4]
	cfg.EncodeDuration = []zapcore.DurationEncoder{zapcore.SecondsDurationEncoder, zapcore.NanosDurationEncoder, zapcore.MillisDurationEncoder, zapcore.StringDurationEncoder}[st/4%4]
	cfg.TimeKey = "ts"
	cfg.EncodeTime = []zapcore.TimeEncoder{zapcore.EpochTimeEncoder, zapcore.EpochMillisTimeEncoder, zapcore.EpochNanosTimeEncoder, zapcore.ISO8601TimeEncoder, zapcore.RFC3339TimeEncoder, zapcore.RFC3339NanoTimeEncoder, zapcore.TimeEncoderOfLayout("15:04:05.000")}[st/16%7]
	cfg.CallerKey = "caller"
	cfg.EncodeCaller = []zapcore.CallerEncoder{zapcore.ShortCallerEncoder, zapcore.FullCallerEncoder}[st/128%2]
	cfg.EncodeName = zapcore.FullNameEncoder
	// members left unset are legal: the encoders fall back to defaults of
	// their own at every call (not the caller encoder: the JSON encoder calls
	// it unconditionally when a caller key is set, sequentially as well)
	if st/256%2 == 1 {
		cfg.EncodeDuration = nil
	}
	if st/512%2 == 1 {
		cfg.EncodeTime = nil
	}
	if st/1024%2 == 1 {
		cfg.EncodeName = nil
	}
	if console {
		return zapcore.NewConsoleEncoder(cfg)
	}
	return zapcore.NewJSONEncoder(cfg)
}
