package props

import (
	"bytes"
	"errors"
	"fmt"
	"io"
	"log"
	"net/url"
	"os"
	"path/filepath"
	"strings"
	"sync"

	"go.uber.org/zap"
	"go.uber.org/zap/zapcore"

	"verif/zsim"
)

// C19 — Open, Config.Build and std-log redirection are all-or-nothing; URLs validated.

func init() {
	register(&Prop{
		ID:  "C19",
		Run: runC19,
		Rule: "one case is one of four members: (open) zap.Open over 0-5 targets drawn from counting zsim:// sinks whose factory fails on plan, openable and unopenable file URLs and bare paths in a per-run directory, syntactically invalid or foreign URLs and unknown schemes, in any order; (build) Config.Build with 0-3 output and 0-3 error-output targets of the same kinds and a drawn defect (none, unknown encoding, time key without encoder, zero Level); (redirect) RedirectStdLogAt / NewStdLogAt with valid and invalid levels under drawn prior flags, prefix and writer; (register) RegisterSink / RegisterEncoder with empty, malformed, duplicate, case-variant and fresh names; " +
			"non-trivial = at least one target failed to open, or a defect was injected, or a registration was refused; distinct = distinct hash of (member, target kinds in order, failing positions, defect)",
		Real: []string{"zap.Open / open / CombineWriteSyncers, sinkRegistry (RegisterSink, newSink, newFileSinkFromURL, normalizeScheme)", "Config.Build / openSinks / buildEncoder, RegisterEncoder", "RedirectStdLogAt / NewStdLogAt / levelToFunc", "the local file system (real files in a scratch directory, open descriptors counted through /proc/self/fd)"},
		Stub: []string{"sink factory of the zsim scheme (counts Open/Close, fails on plan)", "standard library log package state is saved and restored around each run"},
	})
}

type c19target struct {
	kind   int
	raw    string
	ok     bool // expected to open
	sink   *zsim.SimSink
	file   string // path that must be created on success
	opens  int
	closes *int
	std    *os.File // stdout/stderr targets: the stream standing in for the name
}

const (
	tkSim = iota
	tkSimFail
	tkFileURL
	tkBarePath
	tkFileLocalhost
	tkMissingDir
	tkIsDir
	tkBadURL
	tkUnknownScheme
	tkUpperScheme
	tkRelPath
	tkFileUpperScheme
	tkFileEscaped
	tkStdStream // the special names "stdout" and "stderr"
	tkEmpty     // "": names nothing that can be opened
	// tkEscapedMissing: a file URL whose (unescaped) path lies in a directory
	// that does not exist, while a directory spelled like the escaped form
	// does: exactly the path is tried, so the target cannot be opened
	tkEscapedMissing
	// tkDriveLike: see target()
	tkDriveLike
	nTargetKinds
)

var c19kindNames = [...]string{"zsim", "zsim-fails", "file-url", "bare-path", "file-localhost", "missing-dir", "is-a-dir", "invalid-url", "unknown-scheme", "upper-case-scheme", "relative-path", "file-upper-case-scheme", "file-escaped-path", "stdout/stderr", "empty-string", "escaped-path-in-missing-dir", "drive-like-first-segment"}

var c19badURLs = []string{
	"file://user:pw@localhost%s",
	"file://localhost:8080%s",
	"file://%s?x=1",
	"file://%s#frag",
	"file://example.com%s",
	"file://%s%%zz",
	"file://user@%s",
	"file://:secret@localhost%s",
	"file://:secret@%s",
	"file://:p%%40ss@%s",
	"file://u:@localhost%s",
	"file://localhost:0%s",
	"file://%s?&",
	"file://%s?&&&",
	"file://%s?%%zz",
	"file://%s?a=%%zz",
	"file://%s?a;b",
	"file://%s?x=1;y",
	"file://localhost%s?=",
}

type c19world struct {
	c       *Ctx
	dir     string
	table   map[string]func(u *url.URL) (zap.Sink, error)
	n       int
	targets []*c19target
	// inScratch: the working directory is the scratch directory
	inScratch bool
}

type c19sink struct {
	*zsim.SimSink
	t *c19target
}

// c19composite: what a factory returns that opened its destination through
// zap.Open; closing it runs the close function Open handed out.
type c19composite struct {
	zapcore.WriteSyncer
	done func()
}

func (s c19composite) Close() error { s.done(); return nil }

func (w *c19world) target(g *zsim.Stream, f *zsim.Stream) *c19target {
	w.n++
	t := &c19target{}
	t.kind = g.Weighted(5, 2, 3, 2, 1, 1, 1, 2, 1, 1, 1, 1, 1, 1, 1, 1, 1)
	name := fmt.Sprintf("t%d", w.n)
	switch t.kind {
	case tkSim, tkSimFail, tkUpperScheme:
		t.sink = zsim.NewSimSink(w.c.R, name, 1, 1)
		t.ok = t.kind != tkSimFail
		if f.Chance(6) {
			// a sink whose Close reports an error: it still counts as closed, and
			// the sinks after it are closed all the same
			t.sink.CloseErr = fmt.Errorf("injected close error of %s", name)
			w.c.Fault("close-error")
		}
		tt := t
		w.table[name] = func(u *url.URL) (zap.Sink, error) {
			tt.opens++
			if !tt.ok {
				return nil, fmt.Errorf("injected open failure of %s", name)
			}
			return c19sink{tt.sink, tt}, nil
		}
		if g.Chance(5) {
			// a composite sink: its factory opens the real destination through
			// zap.Open itself (as a tee:// or rotate+file:// scheme would), so the
			// registry is entered again from inside a factory call
			inner := name + "-inner"
			w.table[inner] = w.table[name]
			t.sink.CloseErr = nil
			w.table[name] = func(u *url.URL) (zap.Sink, error) {
				ws, done, err := zap.Open("zsim://" + inner + "/x")
				if err != nil {
					return nil, err
				}
				return c19composite{ws, done}, nil
			}
			w.c.R.Probe("sink factory that opens its destination through zap.Open")
		}
		t.raw = "zsim://" + name + "/x"
		if t.kind == tkSim && g.Chance(4) {
			t.raw = "z://" + name + "/x" // the same factory under a one-letter scheme
			w.c.R.Probe("sink URL with a one-letter scheme")
		}
		if t.kind == tkUpperScheme {
			t.raw = pick(g, "ZSIM", "Zsim", "zSiM") + "://" + name + "/x"
		}
		if t.kind == tkSimFail {
			w.c.Fault("sink-open-error")
		}
	case tkFileURL:
		t.file = filepath.Join(w.dir, name+".log")
		t.raw = "file://" + t.file
		t.ok = true
	case tkFileLocalhost:
		t.file = filepath.Join(w.dir, name+".log")
		t.raw = "file://localhost" + t.file
		t.ok = true
	case tkFileUpperScheme:
		// schemes are matched case-insensitively, the built-in one too
		t.file = filepath.Join(w.dir, name+".log")
		t.raw = pick(g, "FILE", "File", "fiLE") + "://" + t.file
		t.ok = true
	case tkFileEscaped:
		// exactly the URL's (unescaped) path is opened
		t.file = filepath.Join(w.dir, name+" a+b.log")
		t.raw = "file://" + filepath.Join(w.dir, name+"%20a+b.log")
		if g.Chance(2) {
			// characters at the very end of the path belong to the name like any
			// others: a line ending, a blank, a dot
			tail := [][2]string{{"\n", "%0A"}, {"\r", "%0D"}, {"\r\n", "%0D%0A"}, {" ", "%20"}, {"\t", "%09"}, {".", "."}, {"\n\n", "%0a%0A"}}[g.Draw(7)]
			t.file = filepath.Join(w.dir, name+".log") + tail[0]
			t.raw = pick(g, "file://", "file://localhost") + filepath.Join(w.dir, name+".log") + tail[1]
			w.c.R.Probe("file URL whose path ends in an escaped line ending, blank or dot")
		}
		t.ok = true
	case tkBarePath:
		t.file = filepath.Join(w.dir, name+".log")
		if g.Chance(6) {
			t.file += pick(g, "\n", " ", "\r\n") // still a file name
			w.c.R.Probe("bare path ending in a line ending or blank")
		}
		t.raw = t.file
		t.ok = true
	case tkRelPath:
		// a relative path is opened relative to the working directory: make
		// it point into the scratch directory
		wd, _ := os.Getwd()
		rel, err := filepath.Rel(wd, filepath.Join(w.dir, name+".log"))
		if err != nil {
			rel = filepath.Join(w.dir, name+".log")
		}
		t.file = filepath.Join(w.dir, name+".log")
		t.raw = rel
		t.ok = true
	case tkStdStream:
		// the process's standard streams stand in for these names; for the run
		// they are files outside the scratch directory (so that they do not
		// count as descriptors the operation left open). They are never closed
		// by zap, whatever happens to the other targets.
		if g.Chance(2) {
			t.raw, t.std = "stdout", os.Stdout
		} else {
			t.raw, t.std = "stderr", os.Stderr
		}
		t.ok = true
	case tkEmpty:
		// an empty entry (an unset variable in a templated configuration): a
		// configured destination that can receive nothing, so the operation
		// cannot succeed with it
		t.raw = ""
		w.c.R.Probe("empty string as a target")
		w.c.Fault("file-open-error")
	case tkDriveLike:
		// a file URL whose first path segment looks like a drive letter: it is an
		// absolute path all the same (/q:/...), which does not exist, while the
		// same spelling without the leading slash does, under the working directory
		os.MkdirAll(filepath.Join(w.dir, "q:", name), 0o755)
		t.raw = pick(g, "file://", "file://localhost") + "/" + pick(g, "q", "Q") + ":/" + name + "/" + name + ".log"
		if !w.inScratch {
			t.raw = "file:///q:/no-such-dir-" + name + "/" + name + ".log"
		}
		w.c.R.Probe("file URL with a drive-like first path segment")
		w.c.Fault("file-open-error")
	case tkEscapedMissing:
		os.Mkdir(filepath.Join(w.dir, name+"%20d"), 0o755) // a directory literally named "…%20d"; "… d" does not exist
		t.raw = "file://" + filepath.Join(w.dir, name+"%20d", name+".log")
		w.c.Fault("file-open-error")
	case tkMissingDir:
		t.raw = pick(g, "file://", "") + filepath.Join(w.dir, "no-such-dir", name+".log")
		w.c.Fault("file-open-error")
	case tkIsDir:
		d := filepath.Join(w.dir, name+".d")
		os.Mkdir(d, 0o755)
		t.raw = pick(g, "file://", "") + d
		w.c.Fault("file-open-error")
	case tkBadURL:
		t.raw = fmt.Sprintf(c19badURLs[g.Draw(len(c19badURLs))], filepath.Join(w.dir, name+".log"))
		w.c.Fault("url-rejected")
	case tkUnknownScheme:
		t.raw = pick(g, "nosuchscheme", "s3", "zsimx", "fil") + "://" + name + "/x"
		w.c.Fault("url-rejected")
	}
	return t
}

func (s c19sink) Close() error { return s.SimSink.Close() }

// openIn counts the process's open descriptors that refer to files inside
// dir (through /proc/self/fd). Only this run touches its scratch directory,
// so the count is unaffected by whatever else the runtime has open.
func openIn(dir string) int {
	es, err := os.ReadDir("/proc/self/fd")
	if err != nil {
		return -1
	}
	n := 0
	for _, e := range es {
		if link, err := os.Readlink("/proc/self/fd/" + e.Name()); err == nil && strings.HasPrefix(link, dir+"/") {
			n++
		}
	}
	return n
}

func (w *c19world) listFiles() []string {
	var out []string
	filepath.Walk(w.dir, func(p string, info os.FileInfo, err error) error {
		if err == nil && !info.IsDir() {
			out = append(out, p)
		}
		return nil
	})
	return out
}

func runC19(c *Ctx) {
	g := c.G
	base := os.Getenv("ZSIM_TMP")
	if base == "" {
		base = os.TempDir()
	}
	dir, err := os.MkdirTemp(base, "c19-")
	if err != nil {
		panic(err)
	}
	defer os.RemoveAll(dir)
	w := &c19world{c: c, dir: dir, table: map[string]func(u *url.URL) (zap.Sink, error){}}
	useSimScheme(w.table)
	// one run in eight works from inside its scratch directory (the process's
	// working directory is the run's for its duration): only then can a path
	// that ought to be absolute be told from one quietly taken as relative
	if g.Chance(8) {
		if wd, err := os.Getwd(); err == nil && os.Chdir(dir) == nil {
			w.inScratch = true
			defer os.Chdir(wd)
		}
	}
	// standard streams of the run: two files outside the scratch directory
	stdDir, err := os.MkdirTemp(base, "c19std-")
	if err != nil {
		panic(err)
	}
	defer os.RemoveAll(stdDir)
	so, err1 := os.Create(filepath.Join(stdDir, "stdout"))
	se, err2 := os.Create(filepath.Join(stdDir, "stderr"))
	if err1 != nil || err2 != nil {
		panic("cannot create stand-ins for the standard streams")
	}
	realOut, realErr := os.Stdout, os.Stderr
	os.Stdout, os.Stderr = so, se
	defer func() {
		os.Stdout, os.Stderr = realOut, realErr
		so.Close()
		se.Close()
	}()
	defer func() {
		// whatever the operation did, it never closes a standard stream
		for _, f := range []*os.File{so, se} {
			if _, err := f.Stat(); err != nil && !c.R.Failed() {
				c.Fail("C19: a standard stream was closed", "%s: %v", f.Name(), err)
			}
		}
	}()
	switch g.Weighted(4, 3, 2, 2) {
	case 0:
		c19open(w)
	case 1:
		c19build(w)
	case 2:
		c19redirect(w)
	default:
		c19register(w)
	}
}

func (w *c19world) draw(n int) []*c19target {
	var ts []*c19target
	for i := 0; i < n; i++ {
		ts = append(ts, w.target(w.c.G, w.c.F))
	}
	return ts
}

func describeTargets(ts []*c19target) string {
	var s []string
	for _, t := range ts {
		s = append(s, c19kindNames[t.kind])
	}
	return "[" + strings.Join(s, " ") + "]"
}

// conservation after a failed operation: every sink opened was closed once,
// no file of a rejected target exists, no descriptor is left open.
func (w *c19world) checkUndone(what string, ts []*c19target, fdBefore int) bool {
	c := w.c
	for _, t := range ts {
		if t.sink != nil && t.ok {
			if t.opens > 1 || t.sink.Closes != t.opens {
				sig := "C19: " + what + " returned an error but left a sink it had opened unclosed"
				if t.sink.Closes > t.opens {
					sig = "C19: " + what + " closed a sink more often than it opened it"
				}
				if c.known(sig) {
					continue
				}
				c.Fail(sig, "target %s: opened %d times, closed %d times; targets %s", t.raw, t.opens, t.sink.Closes, describeTargets(ts))
				return false
			}
		}
		if !t.ok && t.kind != tkSimFail {
			// a rejected or unopenable target must not have created anything
			for _, f := range w.listFiles() {
				if strings.Contains(t.raw, filepath.Base(f)) {
					c.Fail("C19: a rejected file URL created a file", "target %s created %s", t.raw, f)
					return false
				}
			}
		}
	}
	if n := openIn(w.dir); n > 0 {
		sig := "C19: " + what + " returned an error but left a file it had opened open"
		if !c.known(sig) {
			c.Fail(sig, "%d descriptors still refer to files in the scratch directory; targets %s", n, describeTargets(ts))
			return false
		}
	}
	return true
}

func c19open(w *c19world) {
	c, g := w.c, w.c.G
	nTargets := g.Draw(6)
	if g.Chance(10) {
		nTargets = 6 + g.Draw(5) // now and then a long list
		c.R.Probe("Open with 6-10 targets")
	}
	ts := w.draw(nTargets)
	var raws []string
	allOK := true
	for _, t := range ts {
		raws = append(raws, t.raw)
		allOK = allOK && t.ok
		c.MixState(uint64(t.kind)<<1 | b2u(t.ok))
	}
	c.Describe("member=open targets=%s", describeTargets(ts))
	c.Describe("urls=%q", raws)
	c.Nontrivial = !allOK
	fd0 := 0
	ws, closeFn, err := zap.Open(raws...)
	if (err == nil) != allOK {
		c.Fail("C19: Open succeeded although a target cannot be opened, or failed although all can", "targets %s: error %v", describeTargets(ts), err)
		return
	}
	if err != nil {
		if ws != nil || closeFn != nil {
			c.Fail("C19: Open returned an error together with a writer or a close function", "%v", err)
			return
		}
		w.checkUndone("Open", ts, fd0)
		return
	}
	payload := []byte("hello from open\n")
	// every destination receives EVERY write, whatever the other destinations
	// answer: one simulated destination may answer one of the writes with an
	// error, a short count with an error, or a short count without one; it is
	// not judged itself, the others are
	var bad *c19target
	if c.F.Chance(3) {
		var sims []*c19target
		for _, t := range ts {
			if t.sink != nil {
				sims = append(sims, t)
			}
		}
		if len(sims) > 0 && len(ts) > 1 {
			bad = sims[c.F.Draw(len(sims))]
			oc := []zsim.Outcome{{Short: -1, Err: errors.New("injected write error")}, {Short: 3, Err: errors.New("injected short write")}, {Short: 3}, {Short: -1}}[c.F.Draw(4)]
			plan := make([]zsim.Outcome, 3)
			plan[c.F.Draw(3)] = oc
			bad.sink.WritePlan = plan
			c.Fault("destination-misbehaves")
		}
	}
	nWrites := 1 + g.Draw(3)
	var all [][]byte
	for i := 0; i < nWrites; i++ {
		pl := payload
		if i > 0 {
			pl = []byte(fmt.Sprintf("write %d through the opened writer\n", i))
		}
		n, werr := ws.Write(pl)
		if bad == nil && (n != len(pl) || werr != nil) {
			c.Fail("C19: the writer returned by Open does not accept a write", "(%d, %v)", n, werr)
			return
		}
		all = append(all, pl)
	}
	_ = ws.Sync()
	closeFn()
	if bad != nil {
		var rest []*c19target
		for _, t := range ts {
			if t != bad {
				rest = append(rest, t)
			} else if t.opens != 1 || t.sink.Closes != 1 {
				c.Fail("C19: a sink was not opened once and closed once", "Open target %s: opened %d, closed %d", t.raw, t.opens, t.sink.Closes)
				return
			}
		}
		w.checkDelivered("Open", rest, all)
	} else {
		w.checkDelivered("Open", ts, all)
	}
	if n := openIn(w.dir); n > 0 {
		c.Fail("C19: the close function returned by Open left a file open", "%d descriptors still refer to files in the scratch directory", n)
	}
}

// after success + close: every target got the payload exactly once, was
// opened once and closed once; a file target created exactly its path.
func (w *c19world) checkDelivered(what string, ts []*c19target, writes [][]byte) {
	c := w.c
	seen := map[string]int{}
	for _, t := range ts {
		seen[t.raw]++
	}
	payload := bytes.Join(writes, nil)
	// a destination named k times receives every write k times
	rep := func(k int) []byte {
		var out []byte
		for _, wr := range writes {
			out = append(out, bytes.Repeat(wr, k)...)
		}
		return out
	}
	for _, t := range ts {
		switch {
		case t.sink != nil:
			if t.opens != 1 || t.sink.Closes != 1 {
				c.Fail("C19: a sink was not opened once and closed once", "%s target %s: opened %d, closed %d", what, t.raw, t.opens, t.sink.Closes)
				return
			}
			if !bytes.Equal(t.sink.Data, payload) {
				c.Fail("C19: a configured destination did not receive the write exactly once", "%s target %s holds %q", what, t.raw, t.sink.Data)
				return
			}
		case t.std != nil:
			b, _ := os.ReadFile(t.std.Name())
			if !bytes.Equal(b, rep(seen[t.raw])) {
				c.Fail("C19: a configured destination did not receive the write exactly once", "%s standard stream %s holds %q", what, t.raw, b)
				return
			}
		case t.file != "":
			b, err := os.ReadFile(t.file)
			if err != nil {
				c.Fail("C19: a file URL did not open exactly its path", "%s target %s: %v", what, t.raw, err)
				return
			}
			if !bytes.Equal(b, rep(seen[t.raw])) {
				c.Fail("C19: a configured destination did not receive the write exactly once", "%s file %s holds %q", what, t.file, b)
				return
			}
		}
	}
	// nothing else was created
	for _, f := range w.listFiles() {
		ok := false
		for _, t := range ts {
			if t.file == f {
				ok = true
			}
		}
		if !ok {
			c.Fail("C19: a file other than the configured paths was created", "%s created %s", what, f)
			return
		}
	}
}

func c19build(w *c19world) {
	c, g := w.c, w.c.G
	outs := w.draw(g.Draw(4))
	errs := w.draw(g.Draw(4))
	defect := g.Weighted(4, 2, 2, 2, 2)
	if defect == 0 {
		// a successful Build keeps its files open for good (zap offers no way
		// to close them); to keep descriptor counts meaningful across runs,
		// configurations expected to succeed use counting sinks only
		ok := true
		for _, t := range append(append([]*c19target{}, outs...), errs...) {
			ok = ok && t.ok
		}
		if ok {
			swap := func(ts []*c19target) {
				for i, t := range ts {
					for t.file != "" {
						t = w.target(g, c.F)
					}
					if !t.ok {
						continue
					}
					ts[i] = t
				}
			}
			swap(outs)
			swap(errs)
		}
	}
	cfg := zap.NewProductionConfig()
	cfg.DisableCaller, cfg.DisableStacktrace = true, true
	cfg.Sampling = nil
	switch g.Draw(6) {
	case 1:
		cfg.Sampling = &zap.SamplingConfig{Initial: 100, Thereafter: 100}
	case 2:
		cfg.Sampling = &zap.SamplingConfig{Initial: 0, Thereafter: 1} // no initial burst, then every entry
	case 3:
		// negative counts: Build accepts them (every entry is sampled or
		// none is); whatever it makes of them, it must not half-fail
		cfg.Sampling = &zap.SamplingConfig{Initial: pick(g, -1, 1000), Thereafter: pick(g, -1, 1000)}
	}
	cfg.EncoderConfig = encCfg()
	cfg.OutputPaths, cfg.ErrorOutputPaths = nil, nil
	cfg.Development = g.Chance(3)
	initial := g.Chance(3)
	if initial {
		cfg.InitialFields = map[string]interface{}{"zeta": 1, "alpha": "x"}
	}
	allOK := true
	for _, t := range outs {
		cfg.OutputPaths = append(cfg.OutputPaths, t.raw)
		allOK = allOK && t.ok
		c.MixState(uint64(t.kind)<<1 | b2u(t.ok))
	}
	for _, t := range errs {
		cfg.ErrorOutputPaths = append(cfg.ErrorOutputPaths, t.raw)
		allOK = allOK && t.ok
		c.MixState(uint64(t.kind)<<9 | b2u(t.ok))
	}
	switch defect {
	case 1:
		cfg.Encoding = pick(g, "nosuchencoding", "", "JSON")
		c.Fault("config-defect")
	case 2:
		cfg.EncoderConfig.TimeKey = "ts"
		cfg.EncoderConfig.EncodeTime = nil
		c.Fault("config-defect")
	case 3:
		cfg.Level = zap.AtomicLevel{}
		c.Fault("config-defect")
	case 4:
		// a registered encoder whose constructor reports an error
		c19failingEncoder.Do(func() {
			_ = zap.RegisterEncoder("zsim-failing-encoder", func(zapcore.EncoderConfig) (zapcore.Encoder, error) {
				return nil, errors.New("injected encoder constructor failure")
			})
		})
		cfg.Encoding = "zsim-failing-encoder"
		c.Fault("config-defect")
	}
	c.MixState(uint64(defect) << 20)
	c.Describe("member=build outputs=%s error-outputs=%s defect=%s", describeTargets(outs), describeTargets(errs), []string{"none", "unknown-encoding", "time-key-without-encoder", "zero-level", "encoder-constructor-fails"}[defect])
	c.Nontrivial = !allOK || defect != 0
	all := append(append([]*c19target{}, outs...), errs...)
	fd0 := 0
	// one time in three the built logger is extended as applications do it:
	// WrapCore puts another core in front of the configured one. That core
	// fails every write; the configured destinations still receive every entry.
	var bopts []zap.Option
	if g.Chance(3) {
		bopts = append(bopts, zap.WrapCore(func(cc zapcore.Core) zapcore.Core { return zapcore.NewTee(c19failCore{}, cc) }))
		c.Describe("built with WrapCore(tee(failing core, configured core))")
		c.R.Probe("built logger extended by WrapCore with a failing core")
		c.Fault("destination-misbehaves")
	}
	lg, err := cfg.Build(bopts...)
	wantErr := !allOK || defect != 0
	if (err != nil) != wantErr {
		c.Fail("C19: Config.Build succeeded on a defective configuration or failed on a sound one", "defect %d, all targets openable=%v: error %v", defect, allOK, err)
		return
	}
	if err != nil {
		if lg != nil {
			c.Fail("C19: Config.Build returned an error together with a logger", "%v", err)
			return
		}
		w.checkUndone("Config.Build", all, fd0)
		return
	}
	nEntries := 1 + g.Draw(3)
	for i := 0; i < nEntries; i++ {
		lg.Info(fmt.Sprintf("built-%d", i))
	}
	_ = lg.Sync()
	seen := map[string]int{}
	for _, t := range outs {
		seen[t.raw]++
	}
	for _, t := range outs {
		var data []byte
		if t.sink != nil {
			data = t.sink.Data
		} else if t.std != nil {
			data, _ = os.ReadFile(t.std.Name())
		} else if t.file != "" {
			data, _ = os.ReadFile(t.file)
		}
		for i := 0; i < nEntries; i++ {
			if n := bytes.Count(data, []byte(fmt.Sprintf(`"msg":"built-%d"`, i))); n != seen[t.raw] {
				c.Fail("C19: a configured output of a built logger did not receive every entry exactly once", "target %s: entry %d of %d found %d times in %q", t.raw, i, nEntries, n, data)
				return
			}
		}
		if initial && !bytes.Contains(data, []byte(`"alpha":"x","zeta":1`)) {
			c.Fail("C19: a built logger does not carry the configured initial fields", "target %s holds %q", t.raw, data)
			return
		}
	}
	// the error outputs are destinations too: an internal error (here: an
	// output whose device fails) is reported on every one of them
	var victim *c19target
	for _, t := range outs {
		if t.sink != nil {
			victim = t
		}
	}
	if victim != nil && len(errs) > 0 && c.F.Chance(2) {
		victim.sink.FailFrom, victim.sink.FailErr = victim.sink.Writes+1, errors.New("injected device failure")
		c.Fault("destination-misbehaves")
		lg.Info("entry to a failing output")
		seenE := map[string]int{}
		for _, t := range errs {
			seenE[t.raw]++
		}
		for _, t := range errs {
			var data []byte
			if t.sink != nil {
				data = t.sink.Data
			} else if t.std != nil {
				data, _ = os.ReadFile(t.std.Name())
			} else if t.file != "" {
				data, _ = os.ReadFile(t.file)
			}
			if n := bytes.Count(data, []byte("injected device failure")); n < seenE[t.raw] {
				c.Fail("C19: a configured error output of a built logger did not receive the internal error", "error output %s holds %q", t.raw, data)
				return
			}
		}
	}
	// Build has no close function; release what the harness can reach
	for _, t := range all {
		if t.sink != nil && t.opens != 1 {
			c.Fail("C19: Config.Build did not open a configured sink exactly once", "target %s opened %d times", t.raw, t.opens)
			return
		}
	}
	_ = fd0
}

// c19failCore accepts every entry and fails to write it.
type c19failCore struct{}

func (c19failCore) Enabled(zapcore.Level) bool          { return true }
func (k c19failCore) With([]zapcore.Field) zapcore.Core { return k }
func (k c19failCore) Check(e zapcore.Entry, ce *zapcore.CheckedEntry) *zapcore.CheckedEntry {
	return ce.AddCore(e, k)
}
func (c19failCore) Write(zapcore.Entry, []zapcore.Field) error {
	return errors.New("injected failure of a core in front of the configured one")
}
func (c19failCore) Sync() error { return nil }

func c19redirect(w *c19world) {
	c, g := w.c, w.c.G
	saveF, saveP, saveW := log.Flags(), log.Prefix(), log.Writer()
	defer func() { log.SetFlags(saveF); log.SetPrefix(saveP); log.SetOutput(saveW) }()
	flags := []int{0, log.LstdFlags, log.Lshortfile, log.Lmsgprefix | log.Ldate, log.LUTC | log.Lmicroseconds}[g.Draw(5)]
	prefix := pick(g, "", "P:", "[app] ")
	var prior bytes.Buffer
	log.SetFlags(flags)
	log.SetPrefix(prefix)
	log.SetOutput(&prior)
	lvl := []zapcore.Level{zapcore.DebugLevel, zapcore.InfoLevel, zapcore.WarnLevel, zapcore.ErrorLevel, zapcore.DPanicLevel, zapcore.Level(6), zapcore.Level(99), zapcore.Level(-2), zapcore.Level(-128)}[g.Draw(9)]
	valid := lvl >= zapcore.DebugLevel && lvl <= zapcore.FatalLevel
	sink := zsim.NewSimSink(c.R, "std", 1, 1)
	// one run in three: the logger's level disables the bridge level while the
	// redirection is made and is lowered afterwards (a configuration reload):
	// what is enabled is decided when something is written, not before
	al := zap.NewAtomicLevelAt(zapcore.DebugLevel)
	if g.Chance(3) {
		al.SetLevel(zapcore.FatalLevel)
		w.c.R.Probe("std-log redirection made while the logger's level disables it")
	}
	lg := zap.New(zapcore.NewCore(zapcore.NewJSONEncoder(encCfg()), sink, al))
	useNew := g.Chance(3)
	plain := !useNew && g.Chance(3) // RedirectStdLog: no level argument, logs at info
	if plain {
		lvl, valid = zapcore.InfoLevel, true
	}
	c.Describe("member=redirect api=%s level=%d flags=%d prefix=%q", map[bool]string{true: "NewStdLogAt", false: map[bool]string{true: "RedirectStdLog", false: "RedirectStdLogAt"}[plain]}[useNew], lvl, flags, prefix)
	c.MixState(uint64(uint8(lvl))<<8 | uint64(flags))
	c.Nontrivial = !valid
	if !valid {
		c.Fault("invalid-level")
	}
	if useNew {
		sl, err := zap.NewStdLogAt(lg, lvl)
		if (err == nil) != valid {
			c.Fail("C19: NewStdLogAt accepted an invalid level or refused a valid one", "level %d: %v", lvl, err)
			return
		}
		if err == nil {
			al.SetLevel(zapcore.DebugLevel)
			sl.Print("via std")
			if !bytes.Contains(sink.Data, []byte(`"msg":"via std"`)) || !bytes.Contains(sink.Data, []byte(`"level":"`+lvl.String()+`"`)) {
				c.Fail("C19: a std logger from NewStdLogAt does not log at the requested level", "level %s: %q", lvl, sink.Data)
			}
		}
		if log.Flags() != flags || log.Prefix() != prefix || log.Writer() != io.Writer(&prior) {
			c.Fail("C19: NewStdLogAt changed the standard logger's settings", "flags %d prefix %q", log.Flags(), log.Prefix())
		}
		return
	}
	var restore func()
	var err error
	if plain {
		restore = zap.RedirectStdLog(lg)
	} else {
		restore, err = zap.RedirectStdLogAt(lg, lvl)
	}
	if (err == nil) != valid {
		c.Fail("C19: RedirectStdLogAt accepted an invalid level or refused a valid one", "level %d: %v", lvl, err)
		return
	}
	if err != nil {
		if log.Flags() != flags || log.Prefix() != prefix || log.Writer() != io.Writer(&prior) {
			sig := "C19: RedirectStdLogAt returned an error but left the standard logger's flags and prefix cleared"
			if c.known(sig) {
				return
			}
			c.Fail(sig, "level %d: flags %d -> %d, prefix %q -> %q, writer unchanged=%v", lvl, flags, log.Flags(), prefix, log.Prefix(), log.Writer() == io.Writer(&prior))
		}
		return
	}
	al.SetLevel(zapcore.DebugLevel)
	log.Print("redirected")
	if !bytes.Contains(sink.Data, []byte(`"msg":"redirected"`)) || !bytes.Contains(sink.Data, []byte(`"level":"`+lvl.String()+`"`)) {
		c.Fail("C19: after RedirectStdLogAt the standard logger does not reach the zap logger at the requested level", "level %s: %q (prior writer got %q)", lvl, sink.Data, prior.String())
		return
	}
	if prior.Len() != 0 {
		c.Fail("C19: after RedirectStdLogAt output still reached the previous writer", "%q", prior.String())
		return
	}
	// every write reaches the destination: also a blank one
	// (log.Println() of a library, an empty message)
	if lvl < zapcore.PanicLevel {
		n0 := bytes.Count(sink.Data, []byte("\n"))
		log.Println()
		log.Print("")
		log.Print("   ")
		if n := bytes.Count(sink.Data, []byte("\n")) - n0; n != 3 {
			c.Fail("C19: after a std-log redirection a write of the standard logger did not reach the zap logger", "3 blank messages were printed, %d entries arrived: %q", n, sink.Data)
			return
		}
	}
	restore()
	if log.Flags() != flags || log.Prefix() != prefix {
		c.Fail("C19: the restore function of RedirectStdLogAt did not restore flags and prefix", "flags %d -> %d, prefix %q -> %q", flags, log.Flags(), prefix, log.Prefix())
		return
	}
	// (the restore function is documented to reset the output to os.Stderr,
	// not to the previous writer; the statement does not speak about it)
	before := len(sink.Data)
	log.Print("after restore")
	if len(sink.Data) != before {
		c.Fail("C19: after the restore function of a std-log redirection the standard logger still reaches the zap logger", "%q", sink.Data[before:])
	}
}

var c19regCounter int

var c19failingEncoder sync.Once

func c19register(w *c19world) {
	c, g := w.c, w.c.G
	useSimScheme(w.table) // "zsim" is registered
	probe := w.target(g, c.F)
	for probe.kind != tkSim {
		probe = w.target(g, c.F)
	}
	kind := g.Draw(9)
	var name string
	wantErr := true
	if kind == 8 {
		c19concurrentRegister(w, probe)
		return
	}
	switch kind {
	case 0:
		name = ""
	case 1:
		name = pick(g, "1abc", "+x", "a b", "a_b", "ab!", "é", "a/b", ".a")
	case 2:
		name = "zsim"
	case 3:
		name = pick(g, "ZSIM", "Zsim", "zsIM")
	case 4:
		name = pick(g, "file", "FILE", "File")
	case 5:
		c19regCounter++
		name = fmt.Sprintf("zfresh%d.%d+x-y", os.Getpid(), c19regCounter)
		wantErr = false
	case 6, 7:
		// encoder registry
		var ename string
		ewant := true
		switch g.Draw(4) {
		case 0:
			ename = ""
		case 1:
			ename = "json"
		case 2:
			ename = "console"
		default:
			c19regCounter++
			ename = fmt.Sprintf(pick(g, "zenc-%d-%d", "ZEnc-%d-%d", "zencX%d_%d"), os.Getpid(), c19regCounter)
			ewant = false
		}
		called := 0
		err := zap.RegisterEncoder(ename, func(cfg zapcore.EncoderConfig) (zapcore.Encoder, error) {
			called++
			return zapcore.NewJSONEncoder(cfg), nil
		})
		c.Describe("member=register encoder name=%q", ename)
		c.MixState(uint64(len(ename))<<4 | 6)
		c.Nontrivial = ewant
		if (err != nil) != ewant {
			c.Fail("C19: RegisterEncoder accepted an empty or taken name or refused a fresh one", "name %q: %v", ename, err)
			return
		}
		// the registry answers as before for the built-in names
		cfg := zap.NewProductionConfig()
		cfg.EncoderConfig = encCfg()
		cfg.OutputPaths, cfg.ErrorOutputPaths = []string{probe.raw}, nil
		if ename != "" {
			cfg.Encoding = ename
		}
		lg, berr := cfg.Build()
		if berr != nil {
			c.Fail("C19: after a registration attempt a built-in or just registered encoder cannot be used", "encoding %q: %v", cfg.Encoding, berr)
			return
		}
		lg.Info("x")
		if err != nil && called != 0 {
			c.Fail("C19: a refused encoder registration replaced the registered constructor", "name %q", ename)
		}
		if err == nil && called != 1 {
			c.Fail("C19: a registered encoder is not used by Config.Build", "name %q: constructor called %d times", ename, called)
			return
		}
		if err == nil {
			// the name is taken now: a second registration fails and changes nothing
			called2 := 0
			err2 := zap.RegisterEncoder(ename, func(cfg zapcore.EncoderConfig) (zapcore.Encoder, error) {
				called2++
				return zapcore.NewConsoleEncoder(cfg), nil
			})
			if err2 == nil {
				c.Fail("C19: RegisterEncoder accepted an empty or taken name or refused a fresh one", "name %q registered a second time: accepted", ename)
				return
			}
			if lg2, berr := cfg.Build(); berr != nil {
				c.Fail("C19: after a registration attempt a built-in or just registered encoder cannot be used", "encoding %q: %v", cfg.Encoding, berr)
			} else {
				lg2.Info("y")
				if called2 != 0 || called != 2 {
					c.Fail("C19: a refused encoder registration replaced the registered constructor", "name %q: first constructor called %d times in 2 builds, second %d times", ename, called, called2)
				}
			}
		}
		return
	}
	calls := 0
	err := zap.RegisterSink(name, func(u *url.URL) (zap.Sink, error) {
		calls++
		return c19sink{zsim.NewSimSink(c.R, "fresh", 1, 1), &c19target{}}, nil
	})
	c.Describe("member=register sink scheme=%q", name)
	c.MixState(uint64(kind)<<8 | uint64(len(name)))
	c.Nontrivial = wantErr
	if wantErr {
		c.Fault("registration-refused")
	}
	if (err != nil) != wantErr {
		c.Fail("C19: RegisterSink accepted an empty, malformed or taken scheme or refused a fresh valid one", "scheme %q: %v", name, err)
		return
	}
	// the registry is as before: the existing scheme still reaches its own factory
	ws, cl, oerr := zap.Open(probe.raw)
	if oerr != nil || probe.opens != 1 {
		c.Fail("C19: after a registration attempt the existing scheme no longer reaches its factory", "scheme %q attempted; Open(%s): %v, factory calls %d, new factory calls %d", name, probe.raw, oerr, probe.opens, calls)
		return
	}
	_, _ = ws.Write([]byte("x\n"))
	cl()
	if err != nil && calls != 0 {
		c.Fail("C19: a refused sink registration replaced the registered factory", "scheme %q", name)
		return
	}
	if err == nil {
		// schemes are matched case-insensitively
		up := strings.ToUpper(name)
		_, cl2, e2 := zap.Open(up + "://h/p")
		if e2 != nil || calls != 1 {
			c.Fail("C19: a freshly registered scheme is not matched case-insensitively", "Open(%s://h/p): %v, factory calls %d", up, e2, calls)
			return
		}
		cl2()
	}
}

// c19concurrentRegister: 2-3 tasks register the same fresh scheme (or encoder
// name) at once under a seeded schedule. "Already registered ... fails without
// changing the registry": exactly one registration succeeds, and the name is
// served by that one's factory from then on.
func c19concurrentRegister(w *c19world, probe *c19target) {
	c, g, r := w.c, w.c.G, w.c.R
	nTasks := 2 + g.Draw(2)
	encoder := g.Chance(3)
	c19regCounter++
	name := fmt.Sprintf("zrace%d.%d", os.Getpid(), c19regCounter)
	if encoder {
		name = fmt.Sprintf("zrace-enc-%d-%d", os.Getpid(), c19regCounter)
	}
	c.Describe("member=register concurrently tasks=%d encoder=%v name=%q policy=%s", nTasks, encoder, name, r.Policy)
	c.MixState(uint64(nTasks)<<4 | b2u(encoder))
	c.Nontrivial = true
	errs := make([]error, nTasks)
	calls := make([]int, nTasks)
	for t := 0; t < nTasks; t++ {
		t := t
		r.Go(fmt.Sprintf("t%d", t), func() {
			variant := name
			if !encoder && t%2 == 1 {
				variant = strings.ToUpper(name) // schemes are case-insensitive: the same scheme
			}
			if encoder {
				errs[t] = zap.RegisterEncoder(variant, func(cfg zapcore.EncoderConfig) (zapcore.Encoder, error) {
					calls[t]++
					return zapcore.NewJSONEncoder(cfg), nil
				})
			} else {
				errs[t] = zap.RegisterSink(variant, func(u *url.URL) (zap.Sink, error) {
					calls[t]++
					return c19sink{zsim.NewSimSink(r, "raced", 1, 1), &c19target{}}, nil
				})
			}
			zsim.Yield(zsim.KOp, nil)
		})
	}
	c.Sim()
	winner, won := -1, 0
	for t, e := range errs {
		if e == nil {
			winner = t
			won++
		}
	}
	if won != 1 {
		c.Fail("C19: concurrent registrations of one name did not end with exactly one of them accepted", "name %q, %d tasks: %d accepted (errors %v)", name, nTasks, won, errs)
		return
	}
	if encoder {
		cfg := zap.NewProductionConfig()
		cfg.EncoderConfig = encCfg()
		cfg.OutputPaths, cfg.ErrorOutputPaths = []string{probe.raw}, nil
		cfg.Encoding = name
		if _, err := cfg.Build(); err != nil {
			c.Fail("C19: after a registration attempt a built-in or just registered encoder cannot be used", "encoding %q: %v", name, err)
			return
		}
	} else {
		_, cl, err := zap.Open(name + "://h/p")
		if err != nil {
			c.Fail("C19: a freshly registered scheme cannot be opened", "Open(%s://h/p): %v", name, err)
			return
		}
		cl()
	}
	for t := range calls {
		want := 0
		if t == winner {
			want = 1
		}
		if calls[t] != want {
			c.Fail("C19: a refused registration replaced the registered factory", "name %q: the accepted registration was task %d's, factory calls per task %v", name, winner, calls)
			return
		}
	}
}
