package props

import (
	"bytes"
	"context"
	"encoding/json"
	"errors"
	"fmt"
	"io"
	"os"
	"reflect"
	"strings"
	"syscall"
	"testing/synctest"
	"time"
	"unsafe"

	"go.uber.org/zap"
	"go.uber.org/zap/buffer"
	"go.uber.org/zap/zapcore"

	"verif/simsync"
	"verif/zsim"
)

// C10 — field and sink failures are contained and reported; the entry is never lost.

func init() {
	register(&Prop{
		ID:  "C10",
		Run: runC10,
		Rule: "one case = a sequence of 1-6 entries, each with a generated field tree (depth <= 4: scalars, objects, arrays, inline, dict, namespace, Stringer, error, Stringers/Errors/Objects arrays, reflected values) carrying 0-3 fault positions (marshaler error after k members, String()/Error() panic, typed-nil Stringer/error, nil element in an array constructor, reflection-unencodable value), logged through a tee of 1-4 branches of which a drawn subset fails in a drawn way (sink write error, short write with error, disk full, sync error above Error level, failing member of a combined syncer, custom core returning an error), by 1 task or 2 tasks under a seeded schedule; " +
			"non-trivial = at least one field fault or branch fault actually fired; distinct = distinct hash of (scheduling decisions, field-tree shapes with fault positions, failing-branch vector)",
		Real: []string{"zapcore.Field.AddTo, encodeStringer, encodeError, JSON encoder (AppendObject/AppendArray/AddReflected), zap array constructors, zap.Dict/Inline", "zapcore.CheckedEntry.Write (error aggregation and report), multiCore.Write, ioCore.Write, zap.CombineWriteSyncers", "zap.Logger error output plumbing"},
		Stub: []string{"branch sinks and the error output (zsim.SimSink with scripted faults)", "user marshalers / Stringers / errors (fail on plan)", "custom failing core"},
	})
}

const (
	c10Int = iota
	c10Str
	c10Obj
	c10Arr
	c10Inline
	c10Dict
	c10NS
	c10Stringer
	c10Err
	c10Stringers
	c10Errors
	c10Objects
	c10Reflect
)

const (
	ftNone        = iota
	ftMarshalErr  // object/array marshaler returns an error after k members
	ftPanic       // String()/Error() panics
	ftTypedNil    // typed-nil pointer Stringer / error
	ftNilElem     // nil element inside Stringers
	ftUnencodable // reflection cannot encode
)

var c10kindNames = [...]string{"int", "str", "obj", "arr", "inline", "dict", "ns", "stringer", "err", "stringers", "errors", "objects", "reflect"}
var c10faultNames = [...]string{"", "marshal-error", "panic", "typed-nil", "nil-element", "unencodable"}

type c10node struct {
	kind  int
	key   string
	kids  []*c10node
	fault int
	k     int // members emitted before the fault
	id    int // fault id (unique per run)
	val   int
}

func (n *c10node) hasFault() bool {
	if n.fault != ftNone {
		return true
	}
	for _, k := range n.kids {
		if k.hasFault() {
			return true
		}
	}
	return false
}

func (n *c10node) faultIDs(out *[]int) {
	if n.fault != ftNone && n.fault != ftTypedNil && n.fault != ftNilElem {
		*out = append(*out, n.id)
	}
	for _, k := range n.kids {
		k.faultIDs(out)
	}
}

func (n *c10node) String() string {
	s := c10kindNames[n.kind]
	if n.fault != ftNone {
		s += fmt.Sprintf("!%s#%d@%d", c10faultNames[n.fault], n.id, n.k)
	}
	if len(n.kids) > 0 {
		var ks []string
		for _, k := range n.kids {
			ks = append(ks, k.String())
		}
		s += "(" + strings.Join(ks, " ") + ")"
	}
	return s
}

func boom(id int) string { return fmt.Sprintf("boom-%d", id) }

// c10badJSON: a value whose MarshalJSON hands back bytes that are not JSON.
type c10badJSON struct{}

func (c10badJSON) MarshalJSON() ([]byte, error) { return []byte(`{"open":[1,`), nil }

// c10panicVal is an error that cannot be asked for its text: what a method
// panics with when it passes on a broken error it was handed (the typed-nil
// slip, one level down).
type c10panicVal struct{ text string }

func (v c10panicVal) Error() string { panic(v.text) }

// panicValue: what the node's String/Error/Errors method panics with - a text,
// an error, or an error whose own Error method panics; each names the node.
func (n *c10node) panicValue() any {
	switch (n.val/7 + n.id) % 4 {
	case 2:
		return errors.New(boom(n.id))
	case 3:
		return c10panicVal{boom(n.id)}
	}
	return boom(n.id)
}

// ---- user types that fail on plan ----

type c10stringer struct {
	s     string
	panic any
}

func (s *c10stringer) String() string {
	if s.panic != nil {
		panic(s.panic)
	}
	return s.s // nil receiver: nil-pointer dereference, like a careless user type
}

type c10error struct {
	s     string
	panic any
}

func (e *c10error) Error() string {
	if e.panic != nil {
		panic(e.panic)
	}
	return e.s
}

// c10group is an error that also exposes its causes the way multierr and
// similar packages do (an Errors() []error method, which zap looks for); like
// a careless user type, neither method tolerates a nil receiver.
type c10group struct {
	s      string
	causes []error
	panic  any // Errors() panics with this value
}

func (e *c10group) Error() string { return e.s }
func (e *c10group) Errors() []error {
	if e.panic != nil {
		panic(e.panic)
	}
	return e.causes
}

type c10obj struct {
	n       *c10node
	healthy bool
}

func (o c10obj) MarshalLogObject(enc zapcore.ObjectEncoder) error {
	n := o.n
	for i, kid := range n.kids {
		if n.kind != c10Inline && n.val%3 == 0 && i == n.val%4 {
			// user marshalers may open namespaces inside their own object;
			// whatever they leave open must be closed with the object
			enc.OpenNamespace(fmt.Sprintf("inner%d", n.val))
		}
		if !o.healthy && n.fault == ftMarshalErr && i == n.k {
			return errors.New(boom(n.id))
		}
		if err := kid.addMember(enc, o.healthy); err != nil {
			return err
		}
	}
	if !o.healthy && n.fault == ftMarshalErr && n.k >= len(n.kids) {
		return errors.New(boom(n.id))
	}
	return nil
}

type c10arr struct {
	n       *c10node
	healthy bool
}

func (a c10arr) MarshalLogArray(enc zapcore.ArrayEncoder) error {
	n := a.n
	for i, kid := range n.kids {
		if !a.healthy && n.fault == ftMarshalErr && i == n.k {
			return errors.New(boom(n.id))
		}
		switch kid.kind {
		case c10Obj:
			if err := enc.AppendObject(c10obj{kid, a.healthy}); err != nil {
				return err
			}
		case c10Arr:
			if err := enc.AppendArray(c10arr{kid, a.healthy}); err != nil {
				return err
			}
		case c10Str:
			enc.AppendString(fmt.Sprintf("s%d", kid.val))
		case c10Reflect:
			var v any = map[string]int{"v": kid.val}
			if !a.healthy && kid.fault == ftUnencodable {
				v = make(chan int)
			}
			if err := enc.AppendReflected(v); err != nil {
				return err
			}
		default:
			enc.AppendInt(kid.val)
		}
	}
	if !a.healthy && n.fault == ftMarshalErr && n.k >= len(n.kids) {
		return errors.New(boom(n.id))
	}
	return nil
}

// addMember adds the node as a member of an object being marshaled by user
// code: nested objects and arrays propagate their error to the caller (which
// returns it), everything else goes through Field.AddTo like zap.Dict does.
func (n *c10node) addMember(enc zapcore.ObjectEncoder, healthy bool) error {
	switch n.kind {
	case c10Obj:
		return enc.AddObject(n.key, c10obj{n, healthy})
	case c10Arr:
		return enc.AddArray(n.key, c10arr{n, healthy})
	}
	n.field(healthy).AddTo(enc)
	return nil
}

// field builds the zap.Field for the node (healthy = faults switched off: the
// reference version of the same tree).
func (n *c10node) field(healthy bool) zap.Field {
	f := n.fault
	if healthy {
		f = ftNone
	}
	switch n.kind {
	case c10Int:
		return zap.Int(n.key, n.val)
	case c10Str:
		return zap.String(n.key, fmt.Sprintf("s%d", n.val))
	case c10Obj:
		return zap.Object(n.key, c10obj{n, healthy})
	case c10Arr:
		return zap.Array(n.key, c10arr{n, healthy})
	case c10Inline:
		return zap.Inline(c10obj{n, healthy})
	case c10Dict:
		var fs []zap.Field
		for _, k := range n.kids {
			fs = append(fs, k.field(healthy))
		}
		return zap.Dict(n.key, fs...)
	case c10NS:
		return zap.Namespace(n.key)
	case c10Stringer:
		var s *c10stringer
		switch f {
		case ftPanic:
			s = &c10stringer{panic: n.panicValue()}
		case ftTypedNil:
			s = nil
		default:
			s = &c10stringer{s: fmt.Sprintf("str%d", n.val)}
		}
		if n.val%2 == 0 {
			return zap.Any(n.key, s)
		}
		return zap.Stringer(n.key, s)
	case c10Err:
		if n.val%3 == 1 {
			e := &c10group{s: fmt.Sprintf("grp%d", n.val), causes: []error{errors.New("cause-a"), &c10error{s: "cause-b"}, errors.New("cause-c")}}
			switch f {
			case ftPanic:
				if n.k%2 == 0 {
					e.panic = n.panicValue()
				} else {
					// one of the causes panics in its Error() - first, middle
					// or last - while the group's own message does not touch it
					e.causes[(n.val/3)%3] = &c10error{panic: n.panicValue()}
				}
			case ftTypedNil:
				e = nil
			}
			return zap.NamedError(n.key, e)
		}
		var e *c10error
		switch f {
		case ftPanic:
			e = &c10error{panic: n.panicValue()}
		case ftTypedNil:
			e = nil
		default:
			e = &c10error{s: fmt.Sprintf("err%d", n.val)}
		}
		return zap.NamedError(n.key, e)
	case c10Stringers:
		vals := []*c10stringer{{s: "a"}, {s: "b"}, {s: "c"}}
		switch f {
		case ftNilElem:
			vals[n.k%3] = nil
		case ftPanic:
			vals[n.k%3] = &c10stringer{panic: n.panicValue()}
		}
		return zap.Stringers(n.key, vals)
	case c10Errors:
		vals := []error{&c10error{s: "e1"}, nil, &c10error{s: "e2"}}
		switch f {
		case ftPanic:
			vals[2] = &c10error{panic: n.panicValue()}
			if n.val%2 == 1 {
				vals[2] = &c10group{s: "g", panic: n.panicValue()}
			}
		case ftTypedNil:
			vals[0] = (*c10error)(nil)
			if n.val%2 == 1 {
				vals[0] = (*c10group)(nil)
			}
		}
		return zap.Errors(n.key, vals)
	case c10Objects:
		var vals []c10obj
		for _, k := range n.kids {
			vals = append(vals, c10obj{k, healthy})
		}
		return zap.Objects(n.key, vals)
	case c10Reflect:
		if f == ftUnencodable {
			switch n.val % 5 {
			case 0, 1:
				return zap.Reflect(n.key, make(chan int))
			case 2:
				// bytes that claim to be JSON and are not (a truncated request body)
				return zap.Reflect(n.key, json.RawMessage(`{"user":"u1","items":[1,2`))
			case 3:
				return zap.Any(n.key, c10badJSON{})
			}
			return zap.Any(n.key, map[string]any{"f": func() {}})
		}
		return zap.Reflect(n.key, map[string]int{"v": n.val})
	}
	panic("kind")
}

type c10gen struct {
	g       *zsim.Stream
	f       *zsim.Stream
	nextKey int
	nextID  int
	faults  int // remaining fault budget for the entry
}

func (q *c10gen) key() string { q.nextKey++; return fmt.Sprintf("k%d", q.nextKey) }

func (q *c10gen) maybeFault(n *c10node, kinds ...int) {
	if q.faults > 0 && q.f.Chance(3) {
		q.faults--
		q.nextID++
		n.id = q.nextID
		n.fault = kinds[q.f.Draw(len(kinds))]
		n.k = q.f.Draw(len(n.kids) + 2)
	}
}

func (q *c10gen) node(depth int, top bool) *c10node {
	g := q.g
	n := &c10node{key: q.key(), val: g.Draw(100)}
	w := []int{3, 2, 3, 3, 1, 2, 0, 2, 2, 1, 1, 1, 2}
	if top {
		w[c10NS] = 1
	} else {
		w[c10Inline] = 0
	}
	if depth >= 3 {
		w[c10Obj], w[c10Arr], w[c10Dict], w[c10Inline], w[c10Objects] = 0, 0, 0, 0, 0
	}
	n.kind = g.Weighted(w...)
	switch n.kind {
	case c10Obj, c10Inline, c10Dict:
		for i := 0; i < g.Draw(4); i++ {
			n.kids = append(n.kids, q.node(depth+1, false))
		}
		if n.kind != c10Dict {
			q.maybeFault(n, ftMarshalErr)
		}
	case c10Arr:
		for i := 0; i < g.Draw(4); i++ {
			k := &c10node{val: g.Draw(100)}
			switch g.Weighted(3, 2, 2, 1, 2) {
			case 4:
				k.kind = c10Reflect
				q.maybeFault(k, ftUnencodable)
			case 0:
				k.kind = c10Int
			case 1:
				k.kind = c10Str
			case 2:
				k.kind = c10Obj
				if depth < 3 {
					for j := 0; j < g.Draw(3); j++ {
						k.kids = append(k.kids, q.node(depth+2, false))
					}
				}
				q.maybeFault(k, ftMarshalErr)
			case 3:
				k.kind = c10Arr
				for j := 0; j < g.Draw(3); j++ {
					k.kids = append(k.kids, &c10node{kind: c10Int, val: g.Draw(100)})
				}
				q.maybeFault(k, ftMarshalErr)
			}
			n.kids = append(n.kids, k)
		}
		q.maybeFault(n, ftMarshalErr)
	case c10Objects:
		for i := 0; i < 1+g.Draw(3); i++ {
			k := &c10node{kind: c10Obj}
			for j := 0; j < g.Draw(3); j++ {
				k.kids = append(k.kids, q.node(depth+2, false))
			}
			q.maybeFault(k, ftMarshalErr)
			n.kids = append(n.kids, k)
		}
	case c10Stringer, c10Err:
		q.maybeFault(n, ftPanic, ftTypedNil)
	case c10Stringers:
		q.maybeFault(n, ftNilElem, ftPanic)
	case c10Errors:
		q.maybeFault(n, ftPanic, ftTypedNil)
	case c10Reflect:
		q.maybeFault(n, ftUnencodable)
	}
	return n
}

// ---- ordered JSON ----

type jkv struct {
	k string
	v any // string, json.Number, bool, nil, []any, []jkv
}

func decodeOrdered(b []byte) ([]jkv, error) {
	dec := json.NewDecoder(bytes.NewReader(b))
	dec.UseNumber()
	v, err := decodeValue(dec)
	if err != nil {
		return nil, err
	}
	if _, err := dec.Token(); err != io.EOF {
		return nil, fmt.Errorf("trailing data after the JSON value")
	}
	obj, ok := v.([]jkv)
	if !ok {
		return nil, fmt.Errorf("not an object")
	}
	return obj, nil
}

func decodeValue(dec *json.Decoder) (any, error) {
	t, err := dec.Token()
	if err != nil {
		return nil, err
	}
	if d, ok := t.(json.Delim); ok {
		switch d {
		case '{':
			obj := []jkv{}
			for dec.More() {
				kt, err := dec.Token()
				if err != nil {
					return nil, err
				}
				v, err := decodeValue(dec)
				if err != nil {
					return nil, err
				}
				obj = append(obj, jkv{kt.(string), v})
			}
			_, err := dec.Token()
			return obj, err
		case '[':
			arr := []any{}
			for dec.More() {
				v, err := decodeValue(dec)
				if err != nil {
					return nil, err
				}
				arr = append(arr, v)
			}
			_, err := dec.Token()
			return arr, err
		}
	}
	return t, nil
}

func jget(obj []jkv, key string) (any, bool) {
	for _, e := range obj {
		if e.k == key {
			return e.v, true
		}
	}
	return nil, false
}

// jfindError: is there, anywhere in v, a string member whose key ends in
// "Error" and whose value contains text?
func jfindError(v any, text string) bool {
	switch x := v.(type) {
	case []jkv:
		for _, e := range x {
			if s, ok := e.v.(string); ok && strings.HasSuffix(e.k, "Error") && strings.Contains(s, text) {
				return true
			}
			if jfindError(e.v, text) {
				return true
			}
		}
	case []any:
		for _, e := range x {
			if jfindError(e, text) {
				return true
			}
		}
	}
	return false
}

// ---- branches ----

type c10branch struct {
	kind    int // 0 Lock(sink), 1 Combine(sinkA, sinkB), 2 custom core
	sinks   []*zsim.SimSink
	failing bool
	// silentShort: a sink of the branch answers short counts without an error
	silentShort bool
	mult        int // failures to report per entry (2: both members of the combined syncer fail)
	mode        int // 0 write error, 1 short write + error, 2 disk full from call n, 3 sync error, 4 core error
	errText     string
	core        zapcore.Core
	custom      *c10core
}

type c10core struct {
	fail    bool
	errText string
	err     error
	writes  int
}

// Errors returned by sinks and cores are arbitrary values of arbitrary types:
// besides the usual pointer-shaped errors.New values, slice- and
// struct-with-slice typed errors (not comparable with ==) are injected.
type c10sliceErr []string

func (e c10sliceErr) Error() string { return strings.Join(e, "") }

type c10structErr struct {
	parts []string
	code  int
}

func (e c10structErr) Error() string { return strings.Join(e.parts, "") }

// Hostile error values: a typed-nil pointer whose Error method dereferences
// it, and a value whose Error method panics outright. What a report of such a
// failure says is not judged (there is no text to look for); that the logging
// call returns normally and every other destination receives the entry is.
type c10ptrErr struct{ text string }

func (e *c10ptrErr) Error() string { return e.text }

type c10panicErr struct{}

func (c10panicErr) Error() string { panic("c10: the Error method of a sink's error panics") }

// c10streamEncoder: a zapcore.ReflectedEncoder that streams: when a value
// cannot be encoded, part of it has already been written.
type c10streamEncoder struct{ w io.Writer }

func (e c10streamEncoder) Encode(v any) error {
	b, err := json.Marshal(v)
	if err != nil {
		_, _ = e.w.Write([]byte(`{"partial":[1,`))
		return err
	}
	_, err = e.w.Write(append(b, '\n'))
	return err
}

func c10enc(stream bool) zapcore.Encoder {
	cfg := encCfg()
	if stream {
		cfg.NewReflectedEncoder = func(w io.Writer) zapcore.ReflectedEncoder { return c10streamEncoder{w} }
	}
	return zapcore.NewJSONEncoder(cfg)
}

// c10failEnc: an encoder (a registered third-party one, say) that cannot
// encode: EncodeEntry reports an error for every entry.
type c10failEnc struct {
	zapcore.Encoder
	err error
}

func (e c10failEnc) Clone() zapcore.Encoder { return c10failEnc{e.Encoder.Clone(), e.err} }
func (e c10failEnc) EncodeEntry(zapcore.Entry, []zapcore.Field) (*buffer.Buffer, error) {
	return nil, e.err
}

func c10mkErr(kind int, text string) error {
	switch kind {
	case 3:
		var e *c10ptrErr
		return e
	case 4:
		return c10panicErr{}
	case 1:
		return c10sliceErr{text[:len(text)/2], text[len(text)/2:]}
	case 2:
		return c10structErr{parts: []string{text}, code: len(text)}
	case 5:
		// errors that are, by errors.Is, one of the well-known ones (a file
		// closed by its owner, a closed pipe, a full disk, end of input, a
		// cancelled context): failures like any other
		n := int(text[len("branch-")] - '0')
		switch n % 5 {
		case 0:
			return &os.PathError{Op: "write", Path: text, Err: os.ErrClosed}
		case 1:
			return fmt.Errorf("%s: %w", text, io.ErrClosedPipe)
		case 2:
			return &os.PathError{Op: "write", Path: text, Err: syscall.ENOSPC}
		case 3:
			return fmt.Errorf("%s: %w", text, io.EOF)
		}
		return fmt.Errorf("%s: %w", text, context.Canceled)
	}
	return errors.New(text)
}

func (k *c10core) Enabled(zapcore.Level) bool        { return true }
func (k *c10core) With([]zapcore.Field) zapcore.Core { return k }
func (k *c10core) Check(e zapcore.Entry, ce *zapcore.CheckedEntry) *zapcore.CheckedEntry {
	return ce.AddCore(e, k)
}
func (k *c10core) Write(zapcore.Entry, []zapcore.Field) error {
	k.writes++
	if k.fail {
		return k.err
	}
	return nil
}
func (k *c10core) Sync() error { return nil }

type c10entry struct {
	id     int
	level  zapcore.Level
	fields []*c10node
	task   int
	ret    bool
	direct bool  // written with Core.Write on the tee itself instead of through a Logger
	err    error // result of the direct write
	bulk   int   // > 0: the entry carries a string field of this many bytes
}

// c10bufferedTick: the failing sink sits behind a BufferedWriteSyncer and
// fails at a timer-driven flush, where no logging call is in progress to
// report it. The failure is still reported: on the logger's error output, at
// the latest by the logging calls that follow (the entries cannot be delivered
// any more, and the logger says so).
func c10bufferedTick(c *Ctx) {
	g, r := c.G, c.R
	dev := zsim.NewSimSink(r, "dev", 1, 5)
	dev.FailFrom, dev.FailErr = 1, errors.New("device-behind-the-buffer-failure")
	errOut := zsim.NewSimSink(r, "errout", 1, 3)
	clk := zsim.NewSimClock(r, drawEpoch(g))
	bws := &zapcore.BufferedWriteSyncer{WS: dev, Size: 4096, FlushInterval: time.Second}
	bws.Clock = clk.For(unsafe.Pointer(bws), unsafe.Sizeof(*bws))
	lg := zap.New(zapcore.NewCore(zapcore.NewJSONEncoder(encCfg()), bws, zapcore.DebugLevel), zap.ErrorOutput(zapcore.Lock(errOut)))
	nBefore, nAfter := 1+g.Draw(3), 2+g.Draw(3)
	c.Describe("member=buffered-tick entries-before-the-tick=%d after=%d", nBefore, nAfter)
	c.Nontrivial = true
	for i := 0; i < nBefore; i++ {
		lg.Info("buffered before the tick", zap.Int("i", i))
	}
	if !clk.TickAny(true) {
		c.Fail("C10: harness: the buffered syncer has no ticker", "")
		return
	}
	c.Fault("tick")
	synctest.Wait() // the flush goroutine has met the failing device
	if dev.Fired["write-error"] == 0 {
		c.Fail("C10: harness: the tick did not flush", "")
		return
	}
	for i := 0; i < nAfter; i++ {
		lg.Info("after the failed tick", zap.Int("i", i))
	}
	_ = bws.Stop()
	if !strings.Contains(string(errOut.Data), "device-behind-the-buffer-failure") {
		c.Fail("C10: a sink failure at a timer-driven flush of a buffered sink is reported nowhere", "%d entries before the tick, the flush failed, %d entries logged afterwards; error output: %q", nBefore, nAfter, clip(errOut.Data))
	}
	c.R.Probe("sink failure at a timer-driven flush of a buffered sink")
}

func runC10(c *Ctx) {
	if c.G.Chance(30) {
		c10bufferedTick(c)
		return
	}
	g, f, r := c.G, c.F, c.R
	simsync.SetPolicy(pick(g, simsync.PoolLIFO, simsync.PoolLIFO, simsync.PoolRandom), uint64(g.Draw(1<<16))+1, 0)
	guardDone := guardOn(c)
	defer guardDone()
	// one run in four: the encoders use a reflected encoder that writes as it
	// goes, so that a value it cannot encode leaves a partial rendering behind
	streamRefl := g.Chance(4)
	if streamRefl {
		c.R.Probe("streaming reflected encoder")
	}
	nBranch := 1 + g.Weighted(2, 3, 2, 1)
	if g.Chance(12) {
		nBranch = 5 + g.Draw(5) // now and then a wide tee
		c.R.Probe("tee of 5-9 branches")
	}
	var branches []*c10branch
	var cores []zapcore.Core
	errKind := f.Weighted(8, 2, 2, 1, 1, 3)
	hostileErr := errKind == 3 || errKind == 4
	for b := 0; b < nBranch; b++ {
		br := &c10branch{kind: g.Weighted(5, 2, 1), errText: fmt.Sprintf("branch-%d-failure", b)}
		br.failing = f.Chance(3)
		mk := func(name string) *zsim.SimSink {
			s := zsim.NewSimSink(r, name, 1+g.Draw(2), uint64(g.Draw(1<<16))+1)
			br.sinks = append(br.sinks, s)
			return s
		}
		injErr := c10mkErr(errKind, br.errText)
		setFail := func(s *zsim.SimSink) {
			br.mode = f.Draw(4)
			switch br.mode {
			case 0:
				for i := 0; i < 8; i++ {
					s.WritePlan = append(s.WritePlan, zsim.Outcome{Short: -1, Err: injErr})
				}
			case 1:
				for i := 0; i < 8; i++ {
					s.WritePlan = append(s.WritePlan, zsim.Outcome{Short: 1 + f.Draw(5), Err: injErr})
				}
			case 2:
				s.FailFrom, s.FailErr = 1+f.Draw(3), injErr
			case 3:
				for i := 0; i < 8; i++ {
					s.SyncPlan = append(s.SyncPlan, injErr)
				}
			}
		}
		// a destination that takes only part of what it is given and says so
		// in its count, without an error: it is not judged itself and is no
		// failure to report, but whatever zap makes of it, the failures of the
		// other branches are still reported
		silent := func(s *zsim.SimSink) {
			if !br.failing && f.Chance(6) {
				for i := 0; i < 8; i++ {
					s.WritePlan = append(s.WritePlan, zsim.Outcome{Short: 1 + f.Draw(5)})
				}
				br.silentShort = true
				c.R.Probe("a destination answering short counts without error")
			}
		}
		switch br.kind {
		case 0:
			s := mk(fmt.Sprintf("b%d", b))
			hookFails := br.failing && f.Chance(5)
			encFails := br.failing && !hookFails && f.Chance(6)
			if br.failing && !hookFails && !encFails {
				setFail(s)
			}
			silent(s)
			br.core = zapcore.NewCore(c10enc(streamRefl), zapcore.Lock(s), zapcore.DebugLevel)
			if encFails {
				// the failure is that of the core's encoder: nothing reaches the
				// destination (not judged), the error is reported like a sink's
				br.mode = 6
				s.WritePlan = []zsim.Outcome{{}} // marks the sink as not judged
				br.core = zapcore.NewCore(c10failEnc{c10enc(streamRefl), injErr}, zapcore.Lock(s), zapcore.DebugLevel)
				c.R.Probe("a branch whose encoder fails")
			}
			if hookFails {
				// the failure is that of a hook registered on a healthy core: the
				// core's destination holds every entry, the hook's error is reported
				br.mode = 5
				br.core = zapcore.RegisterHooks(br.core, func(zapcore.Entry) error { return injErr })
				c.R.Probe("a branch whose hook reports an error")
			}
		case 1:
			a, bb := mk(fmt.Sprintf("b%d-0", b)), mk(fmt.Sprintf("b%d-1", b))
			if br.failing {
				switch f.Draw(3) {
				case 0:
					setFail(a)
				case 1:
					setFail(bb)
				default:
					// both members fail every write, with different counts: one
					// takes nothing, the other a part (or all) of the line - two
					// failures to report per entry
					br.mode, br.mult = 0, 2
					for i := 0; i < 8; i++ {
						a.WritePlan = append(a.WritePlan, zsim.Outcome{Short: -1, Err: injErr})
						bb.WritePlan = append(bb.WritePlan, zsim.Outcome{Short: f.Draw(4), Err: injErr})
					}
					if f.Chance(2) {
						a.WritePlan, bb.WritePlan = bb.WritePlan, a.WritePlan
					}
					c.R.Probe("both members of a combined syncer fail with different counts")
				}
			}
			silent(bb)
			br.core = zapcore.NewCore(c10enc(streamRefl), zap.CombineWriteSyncers(a, bb), zapcore.DebugLevel)
		case 2:
			br.custom = &c10core{fail: br.failing, errText: br.errText, err: injErr}
			br.mode = 4
			br.core = br.custom
		}
		branches = append(branches, br)
		cores = append(cores, br.core)
	}
	anyHooked := false
	for _, br := range branches {
		anyHooked = anyHooked || br.mode == 5
	}
	errOut := zsim.NewSimSink(r, "errout", 1, 3)
	r.Label(unsafe.Pointer(errOut), "errout")
	tee := zapcore.NewTee(cores...)
	// annotation options change the path an entry takes through Logger.check
	// (caller lookup, also one that fails because the skip reaches past the
	// stack; stack capture); failures are reported all the same
	annot := g.Weighted(5, 1, 1, 1)
	lopts := []zap.Option{zap.ErrorOutput(zapcore.Lock(errOut))}
	switch annot {
	case 1:
		lopts = append(lopts, zap.AddCaller())
	case 2:
		lopts = append(lopts, zap.AddCaller(), zap.AddCallerSkip(1000))
	case 3:
		lopts = append(lopts, zap.AddStacktrace(zapcore.InfoLevel))
	}
	lg := zap.New(tee, lopts...)
	c.MixState(uint64(annot) << 40)

	nTasks := 1
	if g.Chance(4) {
		nTasks = 2
	}
	nEntries := 1 + g.Draw(6)
	q := &c10gen{g: g, f: f}
	var entries []*c10entry
	for i := 0; i < nEntries; i++ {
		e := &c10entry{id: i, task: g.Draw(nTasks)}
		e.level = []zapcore.Level{zapcore.InfoLevel, zapcore.ErrorLevel, zapcore.DPanicLevel}[g.Weighted(3, 1, 2)]
		if g.Chance(8) {
			// a line larger than the sizes writes are usually atomic or unchunked at
			e.bulk = pick(g, 4000, 4096, 4200, 9000, 20000, 70000)
			c.R.Probe("entry of 4-70 KiB")
		}
		e.direct = g.Chance(5) && !anyHooked // (a hooked core relies on Check to register its inner core: its own Write only runs the hooks, by design)
		q.faults = f.Weighted(3, 4, 2, 1)
		q.nextKey = 0
		for j := 0; j < 1+g.Draw(5); j++ {
			e.fields = append(e.fields, q.node(0, true))
		}
		entries = append(entries, e)
		for _, fl := range e.fields {
			c.MixState(uint64(fl.kind)<<8 | uint64(fl.fault))
		}
	}
	var bd []string
	for i, br := range branches {
		s := []string{"Lock", "Combine", "custom-core"}[br.kind]
		if br.silentShort {
			s += "!short-count-without-error"
			c.MixState(uint64(i)<<8 | 0x40)
		}
		if br.failing {
			s += fmt.Sprintf("!fail(mode %d)", br.mode)
			c.MixState(uint64(i)<<8 | uint64(br.mode) | 0x80)
		}
		bd = append(bd, s)
	}
	c.Describe("branches=[%s] tasks=%d annotation=%s policy=%s", strings.Join(bd, " "), nTasks, []string{"none", "caller", "caller-lookup-fails", "stacktrace"}[annot], r.Policy)
	for _, e := range entries {
		var fs []string
		for _, fl := range e.fields {
			fs = append(fs, fl.String())
		}
		c.Describe("entry %d (task %d, %s, direct=%v): %s", e.id, e.task, e.level, e.direct, strings.Join(fs, " "))
	}

	for t := 0; t < nTasks; t++ {
		t := t
		r.Go(fmt.Sprintf("t%d", t), func() {
			for _, e := range entries {
				if e.task != t {
					continue
				}
				fields := []zap.Field{zap.Int("id", e.id)}
				if e.bulk > 0 {
					fields = append(fields, zap.String("bulk", strings.Repeat("z", e.bulk)))
				}
				for _, fl := range e.fields {
					fields = append(fields, fl.field(false))
				}
				func() {
					defer func() {
						if p := recover(); p != nil {
							sig := "C10: a field or sink failure escaped the logging call as a panic"
							if s := fmt.Sprint(p); strings.Contains(s, "nil pointer") && c10hasNilElem(e) {
								sig = "C10: a nil element inside zap.Stringers panics out of the logging call"
							}
							c.Fail(sig, "entry %d: panic %v\n%s", e.id, p, stack())
						}
					}()
					if e.direct {
						e.err = tee.Write(zapcore.Entry{Level: e.level, Message: fmt.Sprintf("entry-%d", e.id)}, fields)
					} else {
						lg.Log(e.level, fmt.Sprintf("entry-%d", e.id), fields...)
					}
					e.ret = true
				}()
				zsim.Yield(zsim.KOp, nil)
			}
		})
	}
	c.Nontrivial = false
	c.Sim()

	// ---- oracles ----
	ref := zapcore.NewJSONEncoder(encCfg())
	errLines := strings.Split(string(errOut.Data), "\n")
	for _, e := range entries {
		if !e.ret {
			c.Fail("C10: a logging call did not return", "entry %d", e.id)
			return
		}
		// reference: the same tree with the faults switched off
		rfields := []zap.Field{zap.Int("id", e.id)}
		for _, fl := range e.fields {
			rfields = append(rfields, fl.field(true))
		}
		rb, err := ref.EncodeEntry(zapcore.Entry{Level: e.level, Message: fmt.Sprintf("entry-%d", e.id)}, rfields)
		if err != nil {
			c.Fail("C10: harness: reference encoding failed", "%v", err)
			return
		}
		refObj, err := decodeOrdered(bytes.TrimSuffix(rb.Bytes(), []byte("\n")))
		if err != nil {
			c.Fail("C10: harness: reference line does not parse", "%v: %q", err, rb.String())
			return
		}
		anyFieldFault := false
		for _, fl := range e.fields {
			if fl.hasFault() {
				anyFieldFault = true
			}
		}
		if anyFieldFault {
			c.Nontrivial = true
			c.Fault("field-fault")
		}
		needle := fmt.Sprintf(`"msg":"entry-%d"`, e.id)
		var failingTexts []string
		for bi, br := range branches {
			if br.custom != nil {
				if br.failing {
					failingTexts = append(failingTexts, br.errText)
				}
				continue
			}
			// does this branch fail for this entry? (sync errors only above Error level)
			branchFails := br.failing && (br.mode != 3 || e.level > zapcore.ErrorLevel)
			if br.failing && br.mode == 2 {
				branchFails = false // disk full from call n: decided per sink below
			}
			for _, s := range br.sinks {
				sinkFaulty := len(s.WritePlan) > 0 || s.FailFrom > 0
				lines := strings.Split(string(s.Data), "\n")
				var mine []string
				for _, ln := range lines {
					if strings.Contains(ln, needle) {
						mine = append(mine, ln)
					}
				}
				if sinkFaulty {
					// a device that refuses bytes may hold a torn or no line; it must
					// never hold the entry twice
					if len(mine) > 1 {
						c.Fail("C10: an entry reached a failing sink more than once", "entry %d branch %d sink %s", e.id, bi, s.Name)
						return
					}
					continue
				}
				if len(mine) != 1 {
					c.Fail("C10: an entry was lost or duplicated on a healthy destination", "entry %d (%s): sink %s of branch %d holds it %d times; branches %v", e.id, e.level, s.Name, bi, len(mine), bd)
					return
				}
				if !c10judgeLine(c, e, mine[0], refObj) {
					return
				}
			}
			if br.failing && br.mode == 2 {
				for _, s := range br.sinks {
					if s.Fired["write-error"] > 0 {
						branchFails = true
					}
				}
				// whether THIS entry hit the full disk is schedule dependent: the
				// report is required only if every write of the run failed
				if br.sinks[0].FailFrom != 1 && (len(br.sinks) < 2 || br.sinks[1].FailFrom != 1) {
					branchFails = false
				}
			}
			if branchFails {
				if br.mode == 3 {
					// sync error above Error level
					found := false
					for _, ln := range errLines {
						if strings.Contains(ln, br.errText) {
							found = true
						}
					}
					if !found {
						sig := "C10: a sink's Sync error after an entry above Error level is not reported on the error output"
						if !c.known(sig) {
							c.Fail(sig, "entry %d (%s): branch %d sink Sync returned %q; error output: %q", e.id, e.level, bi, br.errText, clip(errOut.Data))
							return
						}
					}
					continue
				}
				failingTexts = append(failingTexts, br.errText)
			}
		}
		if e.direct {
			for _, br := range branches {
				if br.failing && (br.mode == 0 || br.mode == 1 || br.mode == 4 || br.mode == 5 || br.mode == 6) {
					if hostileErr {
						if e.err == nil {
							c.Fail("C10: Write on a tee does not return the errors of all its failing cores", "entry %d written directly to the tee: returned nil although a branch failed", e.id)
							return
						}
						continue
					}
					if e.err == nil || !strings.Contains(e.err.Error(), br.errText) {
						c.Fail("C10: Write on a tee does not return the errors of all its failing cores", "entry %d written directly to the tee: returned %v, branch error %q missing", e.id, e.err, br.errText)
						return
					}
				}
			}
		}
		// (3) every failing branch is reported on the error output for this entry
		if len(failingTexts) > 0 {
			c.Nontrivial = true
			c.Fault("branch-fault")
			// error lines are not tagged with the entry; count lines per text over the run below
		}
		_ = failingTexts
	}
	// error output accounting over the run: each always-failing branch must be
	// reported once per entry it failed (write errors fail every entry)
	for bi, br := range branches {
		if !br.failing {
			continue
		}
		want := 0
		nDirect := 0
		for _, e := range entries {
			if e.direct {
				nDirect++
			}
		}
		switch {
		case br.mode == 0 || br.mode == 1 || br.mode == 4 || br.mode == 5 || br.mode == 6:
			want = len(entries) - nDirect // a direct Core.Write returns its error to the caller instead
			if br.mult > 1 {
				want *= br.mult
			}
		case br.mode == 2 && nDirect > 0:
			continue
		case br.mode == 2:
			for _, s := range br.sinks {
				want += s.Fired["write-error"]
			}
		default:
			continue
		}
		// the report's wording and layout are zap's business: what is asked is
		// that the failure (its error text) shows up once for every entry it hit
		got := strings.Count(string(errOut.Data), br.errText)
		if hostileErr {
			// no text to look for: a report line per failed entry, whatever it says
			got = strings.Count(string(errOut.Data), "\n")
			if br.mult > 1 {
				want /= br.mult // lines, not mentions: one report line per entry
			}
		}
		if got < want {
			c.Fail("C10: a failing sink or core was not reported on the error output once per affected entry", "branch %d (%s, mode %d, %q): %d entries failed there, the error output mentions the failure %d times; error output: %q", bi, []string{"Lock", "Combine", "custom-core"}[br.kind], br.mode, br.errText, want, got, clip(errOut.Data))
			return
		}
	}
	for _, br := range branches {
		if br.custom != nil && br.custom.writes != len(entries) {
			c.Fail("C10: a core of the tee did not receive every entry", "custom core received %d of %d entries", br.custom.writes, len(entries))
			return
		}
		for _, s := range br.sinks {
			for k, v := range s.Fired {
				c.Faults[k] += v
			}
		}
	}
}

func c10hasNilElem(e *c10entry) bool {
	var walk func(n *c10node) bool
	walk = func(n *c10node) bool {
		if n.fault == ftNilElem {
			return true
		}
		for _, k := range n.kids {
			if walk(k) {
				return true
			}
		}
		return false
	}
	for _, f := range e.fields {
		if walk(f) {
			return true
		}
	}
	return false
}

// c10judgeLine: the line is one well-formed JSON object; every top-level
// field without a fault equals the reference; every top-level field with a
// fault is reported by an "...Error" member (or rendered <nil>).
func c10judgeLine(c *Ctx, e *c10entry, line string, refObj []jkv) bool {
	if strings.ContainsAny(line, "\r") {
		c.Fail("C10: raw control character in an emitted line", "entry %d: %q", e.id, clipS(line))
		return false
	}
	obj, err := decodeOrdered([]byte(line))
	if err != nil {
		c.Fail("C10: a field failure produced malformed output", "entry %d: %v: %q", e.id, err, clipS(line))
		return false
	}
	for _, k := range []string{"level", "msg", "id"} {
		a, _ := jget(obj, k)
		b, _ := jget(refObj, k)
		if !reflect.DeepEqual(a, b) {
			c.Fail("C10: entry metadata differs from the fault-free encoding", "entry %d key %q: %v vs %v", e.id, k, a, b)
			return false
		}
	}
	cur, rcur := obj, refObj
	for _, fl := range e.fields {
		if fl.kind == c10NS {
			a, ok1 := jget(cur, fl.key)
			b, ok2 := jget(rcur, fl.key)
			ao, ok3 := a.([]jkv)
			bo, ok4 := b.([]jkv)
			if !ok1 || !ok2 || !ok3 || !ok4 {
				c.Fail("C10: a namespace opened by a field is missing from the output", "entry %d namespace %q: %q", e.id, fl.key, clipS(line))
				return false
			}
			cur, rcur = ao, bo
			continue
		}
		members := []*c10node{fl}
		if fl.kind == c10Inline && !fl.hasFault() {
			members = fl.kids
		}
		for _, m := range members {
			if !m.hasFault() {
				if m.kind == c10Inline {
					continue
				}
				a, ok1 := jget(cur, m.key)
				b, ok2 := jget(rcur, m.key)
				if !ok1 || !ok2 || !reflect.DeepEqual(a, b) {
					c.Fail("C10: a field without any fault differs from its fault-free encoding", "entry %d field %q (%s): got %v (present=%v), reference %v; line %q", e.id, m.key, m, a, ok1, b, clipS(line))
					return false
				}
				continue
			}
			// faulty field: reported, or rendered <nil> by the documented typed-nil rule
			var ids []int
			m.faultIDs(&ids)
			reported := false
			for _, id := range ids {
				if jfindError(cur, boom(id)) {
					reported = true
				}
			}
			if !reported && m.containsKind(ftUnencodable) && (jfindError(cur, "unsupported type") || jfindError(cur, "unsupported value") || jfindError(cur, "error calling MarshalJSON")) {
				reported = true
			}
			if !reported && (m.containsKind(ftTypedNil) || m.containsKind(ftNilElem)) && strings.Contains(line, "<nil>") {
				reported = true
			}
			if !reported {
				c.Fail("C10: a failing field is not described by a '<key>Error' member", "entry %d field %q (%s): line %q", e.id, m.key, m, clipS(line))
				return false
			}
		}
	}
	return true
}

func (n *c10node) containsKind(f int) bool {
	if n.fault == f {
		return true
	}
	for _, k := range n.kids {
		if k.containsKind(f) {
			return true
		}
	}
	return false
}
