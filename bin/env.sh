# sourced by bin/setup and bin/check: offline Go environment, newer toolchain
export GOFLAGS=-mod=mod GOPROXY=off GOSUMDB=off GOTOOLCHAIN=local GOWORK=off
export VERIF_DIR="${VERIF_DIR:-$(cd "$(dirname "${BASH_SOURCE[0]}")/.." && pwd)}"
GO=go1.26.8
if ! command -v $GO >/dev/null 2>&1; then
  if [ -x /opt/veriftools/go1.26.8/bin/go ]; then GO=/opt/veriftools/go1.26.8/bin/go; else echo "go1.26.8 not found" >&2; exit 2; fi
fi
export GO
